//! Shared runner for the model-based history properties (C01, C02, C04, C15, parts of C03/C10).

use crate::findings::Findings;
use crate::interp::{Checks, Exec, Failure};
use crate::ops::*;
use crate::runner::*;
use serde_json::{json, Value};
use std::collections::BTreeSet;
use std::path::Path;
use proptest::strategy::Strategy;

#[derive(Clone)]
pub struct Profile {
    pub id: &'static str,
    pub phase: &'static str,
    pub checks: Checks,
    pub gen: GenParams,
    pub keylens: &'static [usize],
    pub short_defer: bool,
    /// non-triviality rule over the labels of a case
    pub nt: fn(&BTreeSet<String>) -> bool,
}

pub fn run_history(case: &Case, dir: &Path, p: &Profile, findings: &Findings) -> Result<CaseOut, Failure> {
    let rt = case.cfg.runtime();
    let res = rt.block_on(async {
        let mut ex = Exec::new(case.cfg.clone(), dir.to_path_buf(), p.checks.clone(), p.gen.nkeys, p.gen.metas.max(1), findings);
        ex.start().await?;
        ex.check().await?;
        for (i, op) in case.ops.iter().enumerate() {
            ex.apply(i, op).await?;
            ex.check().await?;
            if ex.checks.disk_used && matches!(op, Op::WaitIdle) {
                ex.check_disk_used().await?;
            }
            if ex.desynced {
                // an open known finding applies from here on (recorded in known_hits): the rest of the case is not judged
                break;
            }
        }
        ex.wait_msgs().await?;
        ex.close().await?;
        let labels: BTreeSet<String> = ex.labels.iter().map(|s| s.to_string()).collect();
        Ok(CaseOut { nontrivial: (p.nt)(&labels), labels, stats: ex.stats.clone(), known_hits: ex.known_hits.clone(), weight: 1 })
    });
    drop(rt);
    res
}

pub fn sample_case(c: &Case) -> Value {
    json!({
        "cfg": format!("keylen={} bloom={:?} group={} allow_dup={} rt_workers={} defer_ms={:?}", c.cfg.keylen, c.cfg.bloom, c.cfg.group, c.cfg.allow_dup, c.cfg.rt_workers, c.cfg.defer_ms),
        "ops": render_ops(&c.ops),
    })
}

/// Runs the replay tier and the generated search of one history profile
pub fn run_profile(ctx: &RunCtx, p: &Profile, cases: u64, report: &mut Report) {
    let findings = ctx.findings.clone();
    let runf = |c: &Case, d: &Path| run_history(c, d, p, &findings);
    run_replays::<Case, _>(ctx, p.phase, &ctx.verif_dir.join("replays").join(p.id), runf, report);
    let runf = |c: &Case, d: &Path| run_history(c, d, p, &findings);
    // C15 also runs with a corrupted dir under another name (a third of the configurations)
    let other_cdir = p.id == "C15";
    let mk = || {
        let cfg = cfg_strategy(p.keylens, p.short_defer)
            .prop_map(move |mut c| {
                if other_cdir && c.group % 3 == 0 {
                    c.corrupted_dir = Some("quarantine".to_string());
                }
                // ... and a quarter leaves corrupted blobs where they are (ignore_corrupted): their ids stay taken
                if other_cdir && c.group % 4 == 1 {
                    c.ignore_corrupted = true;
                }
                c
            })
            .boxed();
        case_strategy(cfg, &p.gen)
    };
    run_generated(ctx, p.phase, cases, mk, runf, &sample_case, report);
}

/// Generated search over the scale histories (see `scale_case_strategy`); checks run after every step as in `run_profile`
pub fn run_profile_scale(ctx: &RunCtx, p: &Profile, cases: u64, report: &mut Report) {
    let findings = ctx.findings.clone();
    let runf = |c: &Case, d: &Path| run_history(c, d, p, &findings);
    run_replays::<Case, _>(ctx, p.phase, &ctx.verif_dir.join("replays").join(p.id), runf, report);
    let runf = |c: &Case, d: &Path| run_history(c, d, p, &findings);
    let mk = || scale_case_strategy(cfg_strategy(p.keylens, p.short_defer), &p.gen);
    run_generated(ctx, p.phase, cases, mk, runf, &sample_case, report);
}

pub fn has(l: &BTreeSet<String>, s: &str) -> bool {
    l.contains(s)
}
