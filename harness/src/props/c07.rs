//! C07 No harm: stored blob bytes are never modified, truncated or deleted.
use super::{common_assumptions, PropResult};
use crate::blobfmt;
use crate::findings::Findings;
use crate::interp::{Failure, Stats};
use crate::ops::*;
use crate::runner::*;
use crate::sut::{self, key_bytes, to_meta, wait_quiet, Cfg, LoadMode, Sut};
use bytes::Bytes;
use pearl::verif::io as vio;
use proptest::prelude::*;
use serde::{Deserialize, Serialize};
use serde_json::{json, Value};
use std::collections::{BTreeMap, BTreeSet};
use std::path::{Path, PathBuf};
use std::time::Duration;

pub use crate::ops::{BlobDamage, BlobDamageKind};

/// C07 op: either an ordinary op or a restart with damage to blob files (forces quarantine)
#[derive(Clone, Debug, Serialize, Deserialize)]
pub enum HOp {
    Plain(Op),
    CrashReopen { lazy: bool, remove_idx: bool, damage: Vec<BlobDamage> },
    /// arm a one-shot failpoint: the n-th matching file operation from now on fails (short = bytes written before a write fails)
    Fail { kind: FailKind, on_index: bool, nth: u16, eio: bool, short: Option<u16> },
}

#[derive(Clone, Debug, Serialize, Deserialize)]
pub struct HarmCase {
    pub cfg: Cfg,
    pub ops: Vec<HOp>,
}

pub fn harm_strategy() -> BoxedStrategy<HarmCase> {
    let gen = GenParams { nkeys: 4, ts_span: 4, metas: 3, max_ops: 40, w_write: 40, w_delete: 12, w_switch: 10, w_wait: 8, w_reopen: 5, w_lifecycle: 12, w_maint: 6, w_bg: 3, reopen_damage: true, ..Default::default() };
    let dk = prop_oneof![
        4 => (0u8..3, any::<u16>()).prop_map(|(which, frac)| BlobDamageKind::CutRecordHeader { which, frac }),
        2 => any::<u16>().prop_map(|frac| BlobDamageKind::CutLastBody { frac }),
        2 => Just(BlobDamageKind::ZeroMagic),
        2 => any::<u16>().prop_map(|frac| BlobDamageKind::CutBlobHeader { frac }),
        2 => (0u8..3, any::<u16>()).prop_map(|(which, frac)| BlobDamageKind::FlipRecordHeader { which, frac }),
    ];
    let dmg = (any::<u16>(), dk).prop_map(|(sel, kind)| BlobDamage { sel, kind });
    let crash = (prop::bool::weighted(0.3), any::<bool>(), prop::collection::vec(dmg, 1..3)).prop_map(|(lazy, remove_idx, damage)| HOp::CrashReopen { lazy, remove_idx, damage });
    let fkind = prop_oneof![1 => Just(FailKind::Create), 1 => Just(FailKind::Open), 4 => Just(FailKind::Write), 2 => Just(FailKind::Sync)];
    let fail = (fkind, prop::bool::weighted(0.3), 1u16..5, any::<bool>(), prop_oneof![2 => Just(None), 1 => (0u16..80).prop_map(Some), 1 => (80u16..5000).prop_map(Some)]).prop_map(|(kind, on_index, nth, eio, short)| {
        let short = if kind == FailKind::Write { short } else { None };
        HOp::Fail { kind, on_index, nth, eio, short }
    });
    let op = prop_oneof![24 => op_strategy(&gen).prop_map(HOp::Plain), 2 => crash, 1 => fail];
    let cdir = prop_oneof![5 => Just(None), 1 => Just(Some("quarantine".to_string())), 2 => Just(Some("q/sub".to_string()))];
    let cfg = (cfg_strategy(&[1, 8, 33], true), any::<bool>(), prop::bool::weighted(0.2), cdir).prop_map(|(mut c, v, ig, cdir)| {
        c.validate_data = v;
        c.ignore_corrupted = ig;
        c.corrupted_dir = cdir;
        c
    });
    (cfg, prop::collection::vec(op, 0..gen.max_ops)).prop_map(|(cfg, ops)| HarmCase { cfg, ops }).boxed()
}

type Snap = BTreeMap<PathBuf, Vec<u8>>;

fn blob_id(p: &Path) -> Option<usize> {
    let name = p.file_name()?.to_str()?;
    let parts: Vec<&str> = name.split('.').collect();
    if parts.len() == 3 && parts[2] == "blob" {
        parts[1].parse().ok()
    } else {
        None
    }
}

fn snapshot(dir: &Path, corrupted: &Path) -> Snap {
    let mut s = Snap::new();
    for d in [dir.to_path_buf(), corrupted.to_path_buf()] {
        if let Ok(rd) = std::fs::read_dir(&d) {
            for e in rd.flatten() {
                let p = e.path();
                if p.is_file() && p.extension().map_or(false, |x| x == "blob") {
                    if let Ok(b) = std::fs::read(&p) {
                        s.insert(p, b);
                    }
                }
            }
        }
    }
    s
}

struct Harm<'a> {
    cfg: Cfg,
    dir: PathBuf,
    sut: Option<Box<dyn Sut>>,
    session: std::sync::Arc<vio::Session>,
    prev: Snap,
    ids_ever: BTreeSet<usize>,
    /// logical end of every blob file as implied by the writes seen so far
    ends: BTreeMap<PathBuf, u64>,
    ev_pos: usize,
    step: usize,
    cur: String,
    labels: BTreeSet<String>,
    stats: Stats,
    findings: &'a Findings,
    known: BTreeSet<String>,
}

impl<'a> Harm<'a> {
    fn fail<T>(&self, clause: &str, detail: String) -> Result<T, Failure> {
        Err(Failure { clause: clause.into(), detail, step: self.step, op: self.cur.clone() })
    }

    fn s(&self) -> &dyn Sut {
        self.sut.as_deref().expect("open")
    }

    /// Compares the current bytes of every blob file with the previous snapshot
    fn compare_snapshots(&mut self) -> Result<(), Failure> {
        let corrupted = self.cfg.corrupted_path(&self.dir);
        let cur = snapshot(&self.dir, &corrupted);
        for (p, old) in &self.prev {
            let in_corrupted = p.starts_with(&corrupted);
            match cur.get(p) {
                Some(new) => {
                    if in_corrupted {
                        if new != old {
                            return self.fail("harm/quarantined-file-changed", format!("{} changed after it was quarantined ({} -> {} bytes)", p.display(), old.len(), new.len()));
                        }
                    } else if new.len() < old.len() || &new[..old.len()] != &old[..] {
                        let first = old.iter().zip(new.iter()).position(|(a, b)| a != b);
                        return self.fail("harm/blob-bytes-changed", format!("{}: earlier content ({} bytes) is not a prefix of the current content ({} bytes), first difference at {:?}", p.display(), old.len(), new.len(), first));
                    }
                }
                None => {
                    if in_corrupted {
                        return self.fail("harm/quarantined-file-removed", format!("{}", p.display()));
                    }
                    let moved = corrupted.join(p.file_name().unwrap());
                    match cur.get(&moved) {
                        Some(new) if new == old => {
                            self.labels.insert("quarantine".into());
                        }
                        Some(new) => return self.fail("harm/quarantined-not-intact", format!("{} was moved to the corrupted dir with different content ({} vs {} bytes)", p.display(), new.len(), old.len())),
                        None => return self.fail("harm/blob-file-deleted", format!("{} disappeared", p.display())),
                    }
                }
            }
        }
        // new files: ids never used before
        for p in cur.keys() {
            if !self.prev.contains_key(p) {
                let moved_from = self.dir.join(p.file_name().unwrap());
                if p.starts_with(&corrupted) && self.prev.contains_key(&moved_from) {
                    continue; // a quarantine move, judged above
                }
                if let Some(id) = blob_id(p) {
                    if self.ids_ever.contains(&id) {
                        return self.fail("harm/blob-id-reused", format!("new blob file {} reuses id {} (ids ever used: {:?})", p.display(), id, self.ids_ever));
                    }
                    self.labels.insert("new_blob".into());
                }
            }
        }
        for p in cur.keys() {
            if let Some(id) = blob_id(p) {
                self.ids_ever.insert(id);
            }
        }
        self.prev = cur;
        Ok(())
    }

    /// Judges the I/O events recorded since the last call
    fn check_events(&mut self) -> Result<(), Failure> {
        let evs = self.session.events_from(self.ev_pos);
        self.ev_pos += evs.len();
        for e in evs.iter().filter(|e| e.begin) {
            if std::env::var("VERIF_TRACE").is_ok() {
                eprintln!("  [step {}] {:?} {} off={} len={} injected={}", self.step, e.kind, e.path.file_name().and_then(|n| n.to_str()).unwrap_or(""), e.offset, e.len, e.injected);
            }
            let is_blob = e.path.extension().map_or(false, |x| x == "blob");
            match e.kind {
                vio::Kind::Create if is_blob => {
                    if self.ends.contains_key(&e.path) || self.prev.contains_key(&e.path) {
                        // creating a path that already holds a blob would be a rewrite; pearl opens existing blobs with Open
                        if self.prev.get(&e.path).map_or(false, |b| !b.is_empty()) {
                            return self.fail("harm/blob-recreated", format!("{} is created again", e.path.display()));
                        }
                    }
                    self.ends.insert(e.path.clone(), 0);
                }
                vio::Kind::Open if is_blob => {
                    // length at open time = length in the last snapshot (nothing but pearl writes in between;
                    // harness damage re-baselines the snapshot)
                    let len = self.prev.get(&e.path).map(|b| b.len() as u64).unwrap_or_else(|| std::fs::metadata(&e.path).map(|m| m.len()).unwrap_or(0));
                    // a new file object starts at the file's real length (a range reserved by a failed write of the
                    // previous session is forgotten)
                    self.ends.insert(e.path.clone(), len);
                }
                vio::Kind::Write if is_blob => {
                    let end = *self.ends.entry(e.path.clone()).or_insert(0);
                    if e.offset != end {
                        return self.fail("harm/non-append-write", format!("write of {} bytes at offset {} of {} whose end is {}", e.len, e.offset, e.path.display(), end));
                    }
                    // a write that fails (injected) keeps its reserved range: later records go behind it, never over it
                    self.ends.insert(e.path.clone(), end + e.len);
                    if e.injected {
                        self.labels.insert("blob_write_failed".into());
                    }
                    self.stats.queries += 1;
                }
                vio::Kind::Truncate if is_blob => return self.fail("harm/blob-truncated", format!("{}", e.path.display())),
                vio::Kind::Remove if is_blob => return self.fail("harm/blob-removed", format!("{}", e.path.display())),
                vio::Kind::Rename if is_blob => {
                    let ok = e.to.as_ref().map_or(false, |t| t.parent() == Some(self.cfg.corrupted_path(&self.dir).as_path()) && t.file_name() == e.path.file_name());
                    if !ok {
                        return self.fail("harm/blob-renamed", format!("{} -> {:?}", e.path.display(), e.to));
                    }
                    if e.to.as_ref().map_or(false, |t| t.exists() && self.prev.contains_key(t)) {
                        return self.fail("harm/quarantine-overwrites", format!("{:?} already exists", e.to));
                    }
                    self.ends.remove(&e.path);
                }
                _ => {}
            }
        }
        Ok(())
    }

    /// All query kinds, bracketed by the tap: at idle they must cause no mutation event at all
    async fn queries_write_nothing(&mut self, nkeys: u8) -> Result<(), Failure> {
        let st = self.s().bg();
        if !st.idle() || pearl::verif::inflight_io() != 0 {
            return Ok(());
        }
        let before = self.session.events_len();
        for k in 0..=nkeys {
            let kb = key_bytes(self.cfg.keylen, k);
            let _ = self.s().read(&kb).await;
            let _ = self.s().contains(&kb).await;
            let _ = self.s().read_all(&kb, true, LoadMode::Full).await;
            let _ = self.s().read_all(&kb, false, LoadMode::Parts).await;
            let _ = self.s().read_with(&kb, &to_meta(&meta_pool(2).unwrap())).await;
            let _ = self.s().check_filters(&kb).await;
            let _ = self.s().check_filter(&kb).await;
            self.stats.queries += 7;
        }
        let _ = self.s().records_count().await;
        let _ = self.s().records_count_detailed().await;
        let _ = self.s().blobs_count().await;
        let _ = self.s().disk_used().await;
        let _ = self.s().index_memory().await;
        let st2 = self.s().bg();
        if !st2.idle() || st2.sent != st.sent {
            return Ok(()); // something else became active meanwhile
        }
        let evs = self.session.events_from(before);
        if let Some(e) = evs.iter().find(|e| e.begin && matches!(e.kind, vio::Kind::Write | vio::Kind::Truncate | vio::Kind::Create | vio::Kind::Rename | vio::Kind::Remove | vio::Kind::Mkdir)) {
            return self.fail("harm/query-writes", format!("a query caused {:?} on {}", e.kind, e.path.display()));
        }
        self.labels.insert("queries_bracketed".into());
        Ok(())
    }

    async fn settle(&mut self) {
        if let Some(s) = self.sut.as_deref() {
            let _ = wait_quiet(s, false, Duration::from_secs(60)).await;
        }
    }

    async fn plain(&mut self, idx: usize, op: &Op) {
        let keylen = self.cfg.keylen;
        let short = self.cfg.deferred_short();
        match op {
            Op::Write { key, ts, meta, vlen, fill } => {
                let mm = meta_pool(*meta);
                let val = value_bytes(idx, resolve_vlen(*vlen, keylen, &mm), *fill);
                let _ = self.s().write(&key_bytes(keylen, *key), Bytes::from(val), *ts, mm.as_ref().map(to_meta)).await;
                self.stats.writes += 1;
            }
            Op::Delete { key, ts, meta, only_if } => {
                let mm = meta_pool(*meta);
                let _ = self.s().delete(&key_bytes(keylen, *key), *ts, mm.as_ref().map(to_meta), *only_if).await;
                self.stats.deletes += 1;
            }
            Op::CloseActive => {
                let _ = self.s().try_close_active().await;
            }
            Op::CreateActive => {
                let _ = self.s().try_create_active().await;
            }
            Op::Restore => {
                let _ = self.s().try_restore_active().await;
            }
            Op::Switch => {
                let _ = self.s().try_close_active().await;
                let _ = self.s().try_create_active().await;
            }
            Op::ForceUpdate(p) => self.s().force_update(*p).await,
            Op::BgClose => self.s().close_active_bg().await,
            Op::BgCreate => self.s().create_active_bg().await,
            Op::BgRestore => self.s().restore_active_bg().await,
            Op::WaitIdle => {
                if let Some(s) = self.sut.as_deref() {
                    let _ = wait_quiet(s, short, Duration::from_secs(60)).await;
                }
            }
            Op::Offload { level, need } => {
                let _ = self.sut.as_mut().unwrap().offload(crate::ops::offload_needed(*need), *level as usize).await;
            }
            Op::Fsync => {
                let _ = self.s().fsyncdata().await;
            }
            Op::Free => {
                let _ = self.s().free_excess_resources().await;
            }
            Op::Reopen { lazy, remove_all_idx, damage } => {
                self.reopen(*lazy, *remove_all_idx, damage, &[]).await;
            }
            Op::Fail { .. } | Op::Cancel { .. } | Op::Burst { .. } | Op::CrashReopen { .. } | Op::Probe { .. } | Op::Abandon { .. } | Op::InitAgain => {}
        }
    }

    async fn reopen(&mut self, lazy: bool, remove_all_idx: bool, idx_damage: &[Damage], blob_damage: &[BlobDamage]) {
        self.settle().await;
        if let Some(s) = self.sut.take() {
            let _ = s.close().await;
        }
        self.stats.reopens += 1;
        if remove_all_idx {
            for (_, is_idx, p) in sut::list_files(&self.dir) {
                if is_idx {
                    let _ = std::fs::remove_file(p);
                }
            }
        }
        for d in idx_damage {
            let _ = crate::damage::apply_index_damage(&self.dir, d, self.cfg.keylen);
        }
        // damage to blob files is the harness's doing: apply it, then take a new baseline snapshot
        let mut damaged = false;
        for d in blob_damage {
            damaged |= crate::damage::apply_blob_damage(&self.dir, d, self.cfg.keylen);
        }
        if damaged {
            self.labels.insert("blob_damaged".into());
            self.prev = snapshot(&self.dir, &self.cfg.corrupted_path(&self.dir));
            self.ends.clear();
        }
        match sut::open(&self.cfg, &self.dir, lazy).await {
            Ok(s) => self.sut = Some(s),
            Err(_) => {
                // init may legitimately fail (e.g. unreadable directory states); C06 judges that. Try the other mode once.
                self.labels.insert("init_failed".into());
                if let Ok(s) = sut::open(&self.cfg, &self.dir, !lazy).await {
                    self.sut = Some(s);
                }
            }
        }
    }
}

pub fn run_harm(c: &HarmCase, dir: &Path, findings: &Findings) -> Result<CaseOut, Failure> {
    let rt = c.cfg.runtime();
    let nkeys = 4u8;
    let _ = std::fs::remove_dir_all(dir);
    // pearl creates the corrupted dir itself, but only its last component
    if let Some(parent) = c.cfg.corrupted_path(dir).parent() {
        let _ = std::fs::create_dir_all(parent);
    }
    let session = vio::start_session(dir);
    let res = rt.block_on(async {
        let mut h = Harm { cfg: c.cfg.clone(), dir: dir.to_path_buf(), sut: None, session: session.clone(), prev: Snap::new(), ids_ever: BTreeSet::new(), ends: BTreeMap::new(), ev_pos: 0, step: 0, cur: "init".into(), labels: BTreeSet::new(), stats: Stats::default(), findings, known: BTreeSet::new() };
        match sut::open(&c.cfg, dir, false).await {
            Ok(s) => h.sut = Some(s),
            Err(e) => return h.fail("init/err", format!("{:#}", e)),
        }
        h.check_events()?;
        h.compare_snapshots()?;
        for (i, op) in c.ops.iter().enumerate() {
            h.step = i;
            h.cur = format!("{:?}", op);
            h.stats.steps += 1;
            if h.sut.is_none() {
                break;
            }
            match op {
                HOp::Plain(op) => h.plain(i, op).await,
                HOp::CrashReopen { lazy, remove_idx, damage } => h.reopen(*lazy, *remove_idx, &[], damage).await,
                HOp::Fail { kind, on_index, nth, eio, short } => {
                    let k = match kind {
                        FailKind::Create => vio::Kind::Create,
                        FailKind::Open => vio::Kind::Open,
                        FailKind::Write => vio::Kind::Write,
                        FailKind::Sync => vio::Kind::Sync,
                    };
                    if session.failpoints().iter().any(|f| f.fired > 0) {
                        h.labels.insert("fault_fired".into());
                    }
                    session.disarm_all();
                    session.arm(vio::Failpoint { kind: k, ext: if *on_index { "index".into() } else { "blob".into() }, nth: *nth as u64, errno: if *eio { libc::EIO } else { libc::ENOSPC }, short: short.map(|s| s as u64), sticky: false, seen: 0, fired: 0 });
                    continue;
                }
            }
            if h.sut.is_none() {
                break;
            }
            h.settle().await;
            h.check_events()?;
            h.compare_snapshots()?;
            h.queries_write_nothing(nkeys).await?;
            h.check_events()?;
        }
        h.settle().await;
        if session.failpoints().iter().any(|f| f.fired > 0) {
            h.labels.insert("fault_fired".into());
        }
        if let Some(s) = h.sut.take() {
            let _ = s.close().await;
        }
        h.check_events()?;
        h.compare_snapshots()?;
        let _ = &h.findings;
        let nontrivial = ((h.labels.contains("quarantine") || h.stats.reopens > 0) && h.labels.contains("new_blob")) || h.labels.contains("fault_fired");
        Ok(CaseOut { nontrivial, labels: h.labels.clone(), stats: h.stats.clone(), known_hits: h.known.clone(), weight: 1 })
    });
    vio::end_session(dir);
    drop(rt);
    res
}

fn sample(c: &HarmCase) -> Value {
    let ops: Vec<String> = c
        .ops
        .iter()
        .map(|o| match o {
            HOp::Plain(op) => render_ops(std::slice::from_ref(op)).pop().unwrap_or_default(),
            HOp::CrashReopen { lazy, remove_idx, damage } => format!("crash_reopen(lazy={},rm_idx={},{:?})", lazy, remove_idx, damage.iter().map(|d| format!("{:?}", d.kind)).collect::<Vec<_>>()),
            HOp::Fail { kind, on_index, nth, eio, short } => format!("fail({:?},{},n={},{},short={:?})", kind, if *on_index { "index" } else { "blob" }, nth, if *eio { "EIO" } else { "ENOSPC" }, short),
        })
        .collect();
    json!({"cfg": format!("keylen={} validate_data={} ignore_corrupted={} defer_ms={:?} rt_workers={}", c.cfg.keylen, c.cfg.validate_data, c.cfg.ignore_corrupted, c.cfg.defer_ms, c.cfg.rt_workers), "ops": ops})
}

// ------------------------------------------------------------------------------------------------
// phase "tools-self": the offline tools are API calls too - a call that names the blob it reads as its own output
// ------------------------------------------------------------------------------------------------

/// A small storage directory is produced by a generated history and closed; then one tools call is made whose output
/// path is the input blob itself, spelled in a way `Path` equality identifies with it (the tools refuse "recovering into
/// the same file"; spellings that differ as paths - `..`, links, relative vs absolute - are the caller's explicit request
/// to overwrite that file and are not demanded here).
#[derive(Clone, Debug, Serialize, Deserialize)]
pub struct SelfCase {
    pub cfg: Cfg,
    pub ops: Vec<Op>,
    /// 0 recovery_blob(skip=false), 1 recovery_blob(skip=true), 2 migrate_blob, 3 move_and_recover_blob
    pub tool: u8,
    /// 0 identical string, 1 doubled separator, 2 `/./` inserted, 3 both, 4 `./` runs at several places
    pub spelling: u8,
    /// the re-spelled path is the input (true) or the output (false)
    pub respell_input: bool,
    pub validate_every: u8,
    pub target: u8,
}

pub fn self_strategy() -> BoxedStrategy<SelfCase> {
    let gen = GenParams { nkeys: 4, ts_span: 4, metas: 3, max_ops: 16, w_write: 70, w_delete: 12, w_switch: 14, w_wait: 4, w_reopen: 0, ..Default::default() };
    (prop::sample::select(&[8usize, 33][..]), prop::collection::vec(op_strategy(&gen), 1..gen.max_ops), 0u8..4, 0u8..5, any::<bool>(), 0u8..3, any::<u8>())
        .prop_map(|(keylen, ops, tool, spelling, respell_input, validate_every, target)| SelfCase { cfg: Cfg { keylen, allow_dup: true, ..Cfg::default() }, ops, tool, spelling, respell_input, validate_every, target })
        .boxed()
}

fn respell(dir: &Path, name: &str, spelling: u8) -> PathBuf {
    let d = dir.to_string_lossy().to_string();
    PathBuf::from(match spelling {
        1 => format!("{}//{}", d, name),
        2 => format!("{}/./{}", d, name),
        3 => format!("{}/.//{}", d, name),
        4 => format!("{}/././/./{}", d.replacen("/", "//", 1), name),
        _ => format!("{}/{}", d, name),
    })
}

pub fn run_self(c: &SelfCase, dir: &Path, findings: &Findings) -> Result<CaseOut, Failure> {
    let fail = |clause: &str, detail: String| -> Result<CaseOut, Failure> { Err(Failure { clause: clause.into(), detail, step: 0, op: format!("tool {} spelling {} respell_input {}", c.tool, c.spelling, c.respell_input) }) };
    let src = dir.join("src");
    let rt = c.cfg.runtime();
    let stats = rt.block_on(async {
        let mut ex = crate::interp::Exec::new(c.cfg.clone(), src.clone(), crate::interp::Checks::default(), 4, 3, findings);
        ex.start().await?;
        for (i, op) in c.ops.iter().enumerate() {
            ex.apply(i, op).await?;
        }
        ex.close().await?;
        Ok::<_, Failure>(ex.stats.clone())
    })?;
    drop(rt);
    let mut blobs: Vec<(PathBuf, Vec<u8>)> = vec![];
    for e in std::fs::read_dir(&src).map_err(|e| Failure { clause: "harness/io".into(), detail: e.to_string(), step: 0, op: String::new() })? {
        let p = e.map_err(|e| Failure { clause: "harness/io".into(), detail: e.to_string(), step: 0, op: String::new() })?.path();
        if p.extension().map_or(false, |x| x == "blob") {
            let b = std::fs::read(&p).unwrap_or_default();
            blobs.push((p, b));
        }
    }
    blobs.sort();
    let mut labels = BTreeSet::new();
    if blobs.is_empty() {
        return Ok(CaseOut { nontrivial: false, labels, stats, known_hits: Default::default(), weight: 1 });
    }
    let (plain, before) = blobs[c.target as usize % blobs.len()].clone();
    let name = plain.file_name().unwrap().to_string_lossy().to_string();
    let spelled = respell(&src, &name, c.spelling);
    if spelled.as_path() != plain.as_path() {
        return fail("harness/spelling", format!("{:?} and {:?} are different paths", spelled, plain));
    }
    let (input, output) = if c.respell_input { (spelled.clone(), plain.clone()) } else { (plain.clone(), spelled.clone()) };
    let ve = c.validate_every as usize;
    let res = match c.tool {
        0 => pearl::tools::recovery_blob(&input, &output, ve, false),
        1 => pearl::tools::recovery_blob(&input, &output, ve, true),
        2 => pearl::tools::migrate_blob(&input, &output, ve, 1),
        _ => pearl::tools::move_and_recover_blob(&input, &output, ve),
    };
    labels.insert(format!("tool_{}", c.tool));
    labels.insert(format!("spelling_{}", c.spelling));
    labels.insert(if res.is_ok() { "call_ok".to_string() } else { "call_refused".to_string() });
    // no harm: every blob that existed still exists with its earlier bytes as a prefix
    for (p, old) in &blobs {
        let now = match std::fs::read(p) {
            Ok(b) => b,
            Err(e) => return fail("tools-self/blob-gone", format!("{:?} (was {} bytes): {} - call result {:?}", p, old.len(), e, res.as_ref().map_err(|e| format!("{:#}", e)))),
        };
        if now.len() < old.len() || now[..old.len()] != old[..] {
            return fail("tools-self/blob-harmed", format!("{:?} had {} bytes, now {} bytes, earlier content is not a prefix - call result {:?}", p, old.len(), now.len(), res.as_ref().map_err(|e| format!("{:#}", e))));
        }
    }
    let _ = before;
    Ok(CaseOut { nontrivial: c.spelling != 0, labels, stats, known_hits: Default::default(), weight: 1 })
}

fn sample_self(c: &SelfCase) -> Value {
    json!({"keylen": c.cfg.keylen, "ops": render_ops(&c.ops), "tool": c.tool, "spelling": c.spelling, "respell_input": c.respell_input, "validate_every": c.validate_every})
}

// ------------------------------------------------------------------------------------------------
// phase "two-process": a second process tries to use the directory while the first one holds it
// ------------------------------------------------------------------------------------------------

/// The storage of this process is open on the directory (its blobs created in this session, or opened from existing files
/// after a restart); a second process (this binary, `child-c07`) initialises a storage on the same directory and, if that
/// works, writes three records and exits. Whatever the second process achieves, the bytes that are in the blob files when it
/// has exited are still a prefix of every blob after this process has written again, and every blob still parses.
/// (The harness does not open any blob file between opening the storage and the exit of the child: closing any descriptor
/// of a file drops the process's POSIX locks on it, which would fake the very fault this phase looks for.)
#[derive(Clone, Debug, Serialize, Deserialize)]
pub struct LockCase {
    pub cfg: Cfg,
    pub ops: Vec<Op>,
    /// restart before the second process comes (the files are then held through `open`, not `create`)
    pub reopened: bool,
    pub reopened_lazy: bool,
    pub child_lazy: bool,
}

pub fn lock_strategy() -> BoxedStrategy<LockCase> {
    let gen = GenParams { nkeys: 4, ts_span: 4, metas: 2, max_ops: 12, w_write: 70, w_delete: 10, w_switch: 16, w_wait: 4, w_reopen: 0, ..Default::default() };
    (prop::sample::select(&[8usize, 33][..]), prop_oneof![Just(2usize), Just(0usize)], prop::collection::vec(op_strategy(&gen), 1..gen.max_ops), prop::bool::weighted(0.7), prop::bool::weighted(0.3), any::<bool>())
        .prop_map(|(keylen, rt_workers, ops, reopened, reopened_lazy, child_lazy)| LockCase { cfg: Cfg { keylen, rt_workers, allow_dup: true, ..Cfg::default() }, ops, reopened, reopened_lazy, child_lazy })
        .boxed()
}

pub fn child_main(arg: &str) -> i32 {
    let c: LockCase = match serde_json::from_str(arg) {
        Ok(c) => c,
        Err(_) => return 3,
    };
    let dir = PathBuf::from(std::env::var("C07_DIR").unwrap_or_default());
    let rt = c.cfg.runtime();
    rt.block_on(async {
        let s: Box<dyn Sut> = match sut::open(&c.cfg, &dir, c.child_lazy).await {
            Ok(s) => s,
            Err(_) => return 4,
        };
        for i in 0..3u8 {
            if s.write(&key_bytes(c.cfg.keylen, 200 + i), Bytes::from(vec![0xC7u8; 40 + i as usize]), 7, None).await.is_err() {
                return 5;
            }
        }
        let _ = s.fsyncdata().await;
        // no close(): the process simply ends, like the intruder it plays
        0
    })
}

pub fn run_lock(c: &LockCase, dir: &Path, findings: &Findings) -> Result<CaseOut, Failure> {
    let fail = |clause: &str, detail: String| -> Result<CaseOut, Failure> { Err(Failure { clause: clause.into(), detail, step: 0, op: "second process".into() }) };
    let rt = c.cfg.runtime();
    let exe = std::env::current_exe().map_err(|e| Failure { clause: "harness/exe".into(), detail: e.to_string(), step: 0, op: String::new() })?;
    let res = rt.block_on(async {
        let mut ex = crate::interp::Exec::new(c.cfg.clone(), dir.to_path_buf(), crate::interp::Checks::default(), 4, 2, findings);
        ex.start().await?;
        for (i, op) in c.ops.iter().enumerate() {
            ex.apply(i, op).await?;
        }
        if c.reopened {
            ex.apply(c.ops.len(), &Op::Reopen { lazy: c.reopened_lazy, remove_all_idx: false, damage: vec![] }).await?;
        }
        let _ = wait_quiet(ex.s(), false, Duration::from_secs(60)).await;
        // the second process
        let arg = serde_json::to_string(c).unwrap_or_default();
        let dirc = dir.to_path_buf();
        let status = tokio::task::spawn_blocking(move || std::process::Command::new(&exe).arg("child-c07").arg(arg).env("C07_DIR", &dirc).stdout(std::process::Stdio::null()).stderr(std::process::Stdio::null()).status()).await;
        let code = match status {
            Ok(Ok(st)) => st.code().unwrap_or(-1),
            _ => return fail("harness/spawn", "second process could not be started".into()),
        };
        let mut labels = BTreeSet::new();
        labels.insert(if code == 0 { "second_process_got_in".to_string() } else { "second_process_refused".to_string() });
        // from here on the harness may look at the files
        let mut before: Vec<(PathBuf, Vec<u8>)> = vec![];
        for (_, is_idx, p) in sut::list_files(dir) {
            if !is_idx {
                before.push((p.clone(), std::fs::read(&p).unwrap_or_default()));
            }
        }
        // this process goes on: writes, a switch, more writes
        for i in 0..4u8 {
            if i == 2 {
                let _ = ex.s().try_close_active().await;
                let _ = ex.s().try_create_active().await;
            }
            if let Err(e) = ex.s().write(&key_bytes(c.cfg.keylen, i), Bytes::from(vec![0x50 + i; 64]), 9, None).await {
                return fail("two-process/write-err", format!("write after the second process had gone: {:#}", e));
            }
        }
        let _ = ex.s().fsyncdata().await;
        let _ = wait_quiet(ex.s(), false, Duration::from_secs(60)).await;
        for (p, old) in &before {
            let now = match std::fs::read(p) {
                Ok(b) => b,
                Err(e) => return fail("two-process/blob-gone", format!("{:?}: {}", p, e)),
            };
            if now.len() < old.len() || now[..old.len()] != old[..] {
                let at = old.iter().zip(now.iter()).position(|(a, b)| a != b).unwrap_or(now.len().min(old.len()));
                return fail("two-process/blob-harmed", format!("{:?}: {} bytes were in the file when the second process (exit code {}) had gone; after this process wrote again the file has {} bytes and differs from offset {}", p, old.len(), code, now.len(), at));
            }
        }
        for (_, is_idx, p) in sut::list_files(dir) {
            if !is_idx {
                if let Ok(parsed) = blobfmt::parse_blob_file(&p, c.cfg.keylen) {
                    if parsed.end != blobfmt::ParseEnd::Clean {
                        return fail("two-process/blob-does-not-parse", format!("{:?}: {:?} (second process exit code {})", p, parsed.end, code));
                    }
                }
            }
        }
        let stats = ex.stats.clone();
        let _ = ex.close().await;
        Ok(CaseOut { nontrivial: c.reopened, labels, stats, known_hits: Default::default(), weight: 1 })
    });
    drop(rt);
    res
}

fn sample_lock(c: &LockCase) -> Value {
    json!({"keylen": c.cfg.keylen, "rt_workers": c.cfg.rt_workers, "ops": render_ops(&c.ops), "restart_before_the_second_process": c.reopened, "restart_lazy": c.reopened_lazy, "second_process_init_lazy": c.child_lazy})
}

// ------------------------------------------------------------------------------------------------
// phase "plant-next": a file already sits under the name the next blob will get
// ------------------------------------------------------------------------------------------------

/// While the storage runs, a file appears under the name of the NEXT blob (an operator's copy of a blob, a restored backup):
/// its id was not there at init, so the id counter does not know it. Then the active blob is switched. Whatever the storage
/// does with that name, the bytes of the planted file - and of every other blob - stay a prefix of what is there afterwards.
#[derive(Clone, Debug, Serialize, Deserialize)]
pub struct PlantCase {
    pub cfg: Cfg,
    pub ops: Vec<Op>,
    /// 0 try_close + try_create, 1 force_update_active_blob(always), 2 background close + background create
    pub how: u8,
    /// the planted file is a copy of the active blob (true) or 300 bytes of 0x5A (false)
    pub copy_of_active: bool,
}

pub fn plant_strategy() -> BoxedStrategy<PlantCase> {
    let gen = GenParams { nkeys: 4, ts_span: 4, metas: 2, max_ops: 10, w_write: 70, w_delete: 10, w_switch: 16, w_wait: 4, w_reopen: 0, ..Default::default() };
    (prop::sample::select(&[8usize, 33][..]), prop_oneof![Just(2usize), Just(0usize)], prop::collection::vec(op_strategy(&gen), 1..gen.max_ops), 0u8..3, any::<bool>())
        .prop_map(|(keylen, rt_workers, ops, how, copy_of_active)| PlantCase { cfg: Cfg { keylen, rt_workers, allow_dup: true, ..Cfg::default() }, ops, how, copy_of_active })
        .boxed()
}

pub fn run_plant(c: &PlantCase, dir: &Path, findings: &Findings) -> Result<CaseOut, Failure> {
    let fail = |clause: &str, detail: String| -> Result<CaseOut, Failure> { Err(Failure { clause: clause.into(), detail, step: 0, op: format!("plant how {}", c.how) }) };
    let rt = c.cfg.runtime();
    let res = rt.block_on(async {
        let mut ex = crate::interp::Exec::new(c.cfg.clone(), dir.to_path_buf(), crate::interp::Checks::default(), 4, 2, findings);
        ex.start().await?;
        for (i, op) in c.ops.iter().enumerate() {
            ex.apply(i, op).await?;
        }
        let _ = wait_quiet(ex.s(), true, Duration::from_secs(60)).await;
        let next = ex.s().next_blob_id();
        let planted = sut::blob_path(dir, next);
        let content = match (c.copy_of_active, ex.model.active) {
            (true, Some(a)) => std::fs::read(sut::blob_path(dir, a)).unwrap_or_else(|_| vec![0x5A; 300]),
            _ => vec![0x5A; 300],
        };
        if std::fs::write(&planted, &content).is_err() {
            return fail("harness/io", "cannot plant the file".into());
        }
        let mut before: Vec<(PathBuf, Vec<u8>)> = vec![];
        for (_, is_idx, p) in sut::list_files(dir) {
            if !is_idx {
                before.push((p.clone(), std::fs::read(&p).unwrap_or_default()));
            }
        }
        match c.how {
            0 => {
                let _ = ex.s().try_close_active().await;
                let _ = ex.s().try_create_active().await;
            }
            1 => ex.s().force_update(crate::sut::Pred::Always).await,
            _ => {
                ex.s().close_active_bg().await;
                ex.s().create_active_bg().await;
            }
        }
        let _ = wait_quiet(ex.s(), true, Duration::from_secs(60)).await;
        // (the write may fail - the storage may refuse the name or stumble over the content - only the files are judged)
        let _ = ex.s().write(&key_bytes(c.cfg.keylen, 1), Bytes::from(vec![0x77u8; 50]), 9, None).await;
        let _ = wait_quiet(ex.s(), true, Duration::from_secs(60)).await;
        let corrupted = c.cfg.corrupted_path(dir);
        for (p, old) in &before {
            let now = match std::fs::read(p) {
                Ok(b) => b,
                Err(_) => match p.file_name().map(|n| corrupted.join(n)).and_then(|q| std::fs::read(q).ok()) {
                    Some(b) if b == *old => continue, // moved aside unchanged
                    _ => return fail("plant-next/blob-gone", format!("{:?} ({} bytes) is gone", p, old.len())),
                },
            };
            if now.len() < old.len() || now[..old.len()] != old[..] {
                return fail("plant-next/blob-harmed", format!("{:?} had {} bytes before the switch, now {} bytes, earlier content is not a prefix (planted file: {:?})", p, old.len(), now.len(), planted.file_name()));
            }
        }
        let stats = ex.stats.clone();
        if let Some(s) = ex.sut.take() {
            let _ = s.close().await;
        }
        let mut labels = BTreeSet::new();
        labels.insert(format!("plant_how_{}", c.how));
        Ok(CaseOut { nontrivial: true, labels, stats, known_hits: Default::default(), weight: 1 })
    });
    drop(rt);
    res
}

fn sample_plant(c: &PlantCase) -> Value {
    json!({"keylen": c.cfg.keylen, "rt_workers": c.cfg.rt_workers, "ops": render_ops(&c.ops), "switch_by(0 close+create,1 force_update,2 background)": c.how, "planted_copy_of_active_blob": c.copy_of_active})
}

pub fn run(ctx: &RunCtx) -> PropResult {
    let mut report = Report::default();
    let findings = ctx.findings.clone();
    let runf = |c: &HarmCase, d: &Path| run_harm(c, d, &findings);
    run_replays::<HarmCase, _>(ctx, "harm", &ctx.verif_dir.join("replays").join("C07"), runf, &mut report);
    let runf = |c: &HarmCase, d: &Path| run_harm(c, d, &findings);
    run_generated(ctx, "harm", ctx.tier.pick(4000, 40_000), harm_strategy, runf, &sample, &mut report);
    let runf = |c: &SelfCase, d: &Path| run_self(c, d, &findings);
    run_replays::<SelfCase, _>(ctx, "tools-self", &ctx.verif_dir.join("replays").join("C07"), runf, &mut report);
    let runf = |c: &SelfCase, d: &Path| run_self(c, d, &findings);
    run_generated(ctx, "tools-self", ctx.tier.pick(400, 6000), self_strategy, runf, &sample_self, &mut report);
    let runf = |c: &PlantCase, d: &Path| run_plant(c, d, &findings);
    run_replays::<PlantCase, _>(ctx, "plant-next", &ctx.verif_dir.join("replays").join("C07"), runf, &mut report);
    let runf = |c: &PlantCase, d: &Path| run_plant(c, d, &findings);
    run_generated(ctx, "plant-next", ctx.tier.pick(200, 3000), plant_strategy, runf, &sample_plant, &mut report);
    let runf = |c: &LockCase, d: &Path| run_lock(c, d, &findings);
    run_replays::<LockCase, _>(ctx, "two-process", &ctx.verif_dir.join("replays").join("C07"), runf, &mut report);
    let runf = |c: &LockCase, d: &Path| run_lock(c, d, &findings);
    run_generated(ctx, "two-process", ctx.tier.pick(96, 1500), lock_strategy, runf, &sample_lock, &mut report);
    PropResult {
        report,
        level: "exploration",
        rule: "proptest histories over ALL public calls (data ops, try_close/create/restore, force_update, *_in_background, offload, fsync, free, wait-idle), restarts with index damage, one-shot injected I/O failures (n-th create / open / write / short write / sync on blob or index files, ENOSPC or EIO, hitting client calls, background tasks or a later init alike), and crash-restarts in which blob files are damaged so that init quarantines them (cut inside a record header / body / the blob header, zeroed magic, flipped header byte; data validation on/off; quarantine or ignore; the corrupted dir under its default name, another name, or a two-component relative path). After EVERY step the bytes of every *.blob in the work dir and the corrupted dir are compared with the previous snapshot: earlier bytes must be a prefix of the current bytes, or the file sits byte-identical in the corrupted dir (then immutable); new blob files must carry an id never used by any file of either directory. From the I/O tap: every write to a *.blob starts exactly at the end implied by the earlier writes (a failed write keeps its reserved range: nothing is ever written over it), no truncate/remove ever names a *.blob, renames only move a blob into the corrupted dir without overwriting, and at idle points a batch of every query kind is bracketed by zero write/create/truncate/rename/remove events. A phase tools-self closes a generated small directory and makes one offline-tools call (recovery_blob with either skip value, migrate_blob, move_and_recover_blob) whose output is the input blob itself under a spelling Path equality identifies with it (identical, doubled separators, /./ segments; either argument re-spelled): whatever the call answers, every blob file keeps its earlier bytes as a prefix. Non-trivial = a blob was created after a restart or a quarantine, or a failpoint fired; tools-self: the two spellings differ as strings. A phase plant-next lets a file appear under the name of the NEXT blob while the storage runs (a copy of the active blob, or 300 foreign bytes), switches the active blob (close + create, forced update, background requests) and writes: the planted bytes and every other blob stay a prefix of what is there afterwards (or sit unchanged in the corrupted dir). A phase two-process keeps the storage open (blobs created in this session, or opened from existing files after a restart), lets a second process of this binary initialise a storage on the same directory (eager or lazy; if it gets in it writes three records) and then writes again itself: the bytes present when the second process has gone are a prefix of every blob afterwards and every blob parses; the harness opens no blob file while the second process may run (that would drop the first process's POSIX locks). Non-trivial there = the files were held through open, not create. distinct = FNV hash of the serialized case.".into(),
        assumptions: {
            let mut a = common_assumptions();
            a.push("damage applied by the harness itself re-baselines the snapshot (it is the fault, not the system's doing)".into());
            a
        },
    }
}

pub fn replay_other(phase: &str, case: &Value, dir: &Path, findings: &Findings) -> Option<Result<CaseOut, Failure>> {
    if phase == "harm" {
        let runf = |c: &HarmCase, d: &Path| run_harm(c, d, findings);
        serde_json::from_value::<HarmCase>(case.clone()).ok().map(|c| guarded(&c, dir, &runf))
    } else if phase == "plant-next" {
        let runf = |c: &PlantCase, d: &Path| run_plant(c, d, findings);
        serde_json::from_value::<PlantCase>(case.clone()).ok().map(|c| guarded(&c, dir, &runf))
    } else if phase == "two-process" {
        let runf = |c: &LockCase, d: &Path| run_lock(c, d, findings);
        serde_json::from_value::<LockCase>(case.clone()).ok().map(|c| guarded(&c, dir, &runf))
    } else if phase == "tools-self" {
        let runf = |c: &SelfCase, d: &Path| run_self(c, d, findings);
        serde_json::from_value::<SelfCase>(case.clone()).ok().map(|c| guarded(&c, dir, &runf))
    } else {
        None
    }
}
