//! C16 Offline tools validate exactly well-formed files and recover without loss.
use super::{common_assumptions, PropResult};
use crate::blobfmt::{self, ParseEnd, ParsedRec};
use crate::findings::Findings;
use crate::interp::{Checks, Exec, Failure, Stats};
use crate::model::{Kind, Model, Rec};
use crate::ops::*;
use crate::runner::*;
use crate::sut::{self, Cfg};
use pearl::tools;
use pearl::ArrayKey;
use proptest::prelude::*;
use serde::{Deserialize, Serialize};
use serde_json::{json, Value};
use std::collections::BTreeSet;
use std::path::Path;

/// every key size the index-reading tools dispatch on
pub const TOOL_KEYLENS: &[usize] = &[4, 8, 16, 32, 64, 128];

#[derive(Clone, Debug, Serialize, Deserialize, PartialEq, Eq)]
pub enum Dmg {
    None,
    /// cut the blob inside record `rec` at a position of class `class` (0 blob header, 1 record header, 2 meta, 3 data)
    Truncate { rec: u16, class: u8, frac: u16 },
    /// XOR one byte (mask != 0) at a position of class:
    /// 0 blob magic, 1 blob version, 2 blob flags, 3 record magic, 4 key length field, 5 key bytes, 6 meta_size, 7 data_size,
    /// 8 flags, 9 blob_offset, 10 timestamp, 11 data checksum, 12 header checksum, 13 meta bytes, 14 data bytes
    Flip { rec: u16, class: u8, frac: u16, mask: u8 },
}

#[derive(Clone, Debug, Serialize, Deserialize)]
pub struct ToolCase {
    pub cfg: Cfg,
    pub ops: Vec<Op>,
    pub dmg: Dmg,
    pub validate_every: u8,
}

pub fn tool_strategy() -> BoxedStrategy<ToolCase> {
    let gen = GenParams { nkeys: 4, ts_span: 4, metas: 4, max_ops: 14, w_write: 80, w_delete: 14, w_switch: 0, w_wait: 0, w_reopen: 0, vlen: VlenGen::Thresholds, fills: 3, ..Default::default() };
    let dmg = prop_oneof![
        2 => Just(Dmg::None),
        5 => (any::<u16>(), 0u8..4, any::<u16>()).prop_map(|(rec, class, frac)| Dmg::Truncate { rec, class, frac }),
        10 => (any::<u16>(), 0u8..15, any::<u16>(), 1u8..=255).prop_map(|(rec, class, frac, mask)| Dmg::Flip { rec, class, frac, mask }),
    ];
    (prop::sample::select(TOOL_KEYLENS), prop::collection::vec(op_strategy(&gen), 1..gen.max_ops), dmg, 0u8..4, prop_oneof![Just(2usize), Just(0usize)])
        .prop_map(|(keylen, ops, dmg, validate_every, rt_workers)| ToolCase { cfg: Cfg { keylen, allow_dup: true, rt_workers, ..Cfg::default() }, ops, dmg, validate_every })
        .boxed()
}

fn fail<T>(clause: &str, detail: String) -> Result<T, Failure> {
    Err(Failure { clause: clause.into(), detail, step: 0, op: String::new() })
}

fn validate_index_dyn(keylen: usize, path: &Path) -> anyhow::Result<()> {
    match keylen {
        4 => tools::validate_index::<ArrayKey<4>>(path),
        8 => tools::validate_index::<ArrayKey<8>>(path),
        16 => tools::validate_index::<ArrayKey<16>>(path),
        32 => tools::validate_index::<ArrayKey<32>>(path),
        64 => tools::validate_index::<ArrayKey<64>>(path),
        128 => tools::validate_index::<ArrayKey<128>>(path),
        _ => Err(anyhow::anyhow!("unsupported")),
    }
}

/// (start, len) of a position class inside record `r`
fn rec_class_range(r: &ParsedRec, keylen: usize, class: u8) -> (u64, u64) {
    let k = keylen as u64;
    let p = r.pos;
    match class {
        3 => (p, 8),
        4 => (p + 8, 8),
        5 => (p + 16, k),
        6 => (p + 16 + k, 8),
        7 => (p + 24 + k, 8),
        8 => (p + 32 + k, 1),
        9 => (p + 33 + k, 8),
        10 => (p + 41 + k, 8),
        11 => (p + 49 + k, 4),
        12 => (p + 53 + k, 4),
        13 => (r.meta_pos(), r.hdr.meta_size),
        _ => (r.data_pos(), r.hdr.data_size),
    }
}

/// Same logical record (meta compared decoded: a tool may re-serialize the map in another order)
fn same_record(a: &ParsedRec, b: &ParsedRec) -> bool {
    a.hdr.key == b.hdr.key && a.hdr.timestamp == b.hdr.timestamp && a.hdr.flags == b.hdr.flags && a.data == b.data && a.hdr.data_checksum == b.hdr.data_checksum && a.hdr.meta_size == b.hdr.meta_size && blobfmt::parse_meta(&a.meta) == blobfmt::parse_meta(&b.meta) && a.header_crc_ok && a.data_crc_ok
}

/// Builds a single-blob model from parsed records (used to judge what a storage must serve from a blob file)
fn model_of(records: &[&ParsedRec], keys: &dyn Fn(&[u8]) -> Option<u8>) -> Option<Model> {
    let mut m = Model::new(true);
    m.ensure_active();
    for r in records {
        let key = keys(&r.hdr.key)?;
        let meta: crate::sut::MetaMap = blobfmt::parse_meta(&r.meta)?.into_iter().collect();
        let kind = if r.deleted() { Kind::Del { meta } } else { Kind::Put { val: r.data.clone(), meta } };
        m.blobs.get_mut(&0).unwrap().push(Rec { key, ts: r.hdr.timestamp, kind });
    }
    Some(m)
}

pub fn run_tool(c: &ToolCase, dir: &Path, findings: &Findings) -> Result<CaseOut, Failure> {
    let keylen = c.cfg.keylen;
    let nkeys = 4u8;
    let src = dir.join("src");
    let rt = c.cfg.runtime();
    let mut labels: BTreeSet<String> = BTreeSet::new();
    let mut known: BTreeSet<String> = BTreeSet::new();
    // 1. produce a blob (and its index) with the storage
    let stats = rt.block_on(async {
        let mut ex = Exec::new(c.cfg.clone(), src.clone(), Checks::default(), nkeys, 3, findings);
        ex.start().await?;
        for (i, op) in c.ops.iter().enumerate() {
            ex.apply(i, op).await?;
        }
        ex.close().await?;
        Ok::<_, Failure>(ex.stats.clone())
    })?;
    let blob = sut::blob_path(&src, 0);
    let index = sut::index_path(&src, 0);
    let orig = match blobfmt::parse_blob_file(&blob, keylen) {
        Ok(p) => p,
        Err(e) => return fail("harness/parse", e.to_string()),
    };
    if orig.end != ParseEnd::Clean {
        return fail("blobfile/parse", format!("storage output does not parse: {:?}", orig.end));
    }
    let _enter = rt.enter();
    let key_of = |kb: &[u8]| -> Option<u8> { (0..=nkeys).find(|i| sut::key_bytes(keylen, *i) == kb) };
    // 2. undamaged: every validator accepts, read_index reports exactly the headers, migration preserves records
    if let Err(e) = tools::validate_blob(&blob) {
        return fail("validate_blob/rejects-wellformed", format!("{:#}", e));
    }
    if index.exists() {
        if let Err(e) = validate_index_dyn(keylen, &index) {
            return fail("validate_index/rejects-wellformed", format!("{:#}", e));
        }
        match tools::read_index_sync(&index) {
            Err(e) => return fail("read_index/err", format!("{:#}", e)),
            Ok(map) => {
                let mut got: Vec<(Vec<u8>, u64)> = map.iter().flat_map(|(k, hs)| hs.iter().map(move |h| (k.clone(), h.blob_offset()))).collect();
                got.sort();
                let mut exp: Vec<(Vec<u8>, u64)> = orig.records.iter().map(|r| (r.hdr.key.clone(), r.pos)).collect();
                exp.sort();
                if got != exp {
                    return fail("read_index/headers-differ", format!("index reports {} headers, blob holds {}", got.len(), exp.len()));
                }
                for (k, hs) in &map {
                    for h in hs {
                        if h.key() != k.as_slice() {
                            return fail("read_index/key-mismatch", format!("{:?}", k));
                        }
                    }
                }
            }
        }
        labels.insert("index_checked".into());
    }
    let migrated = dir.join("migrated.blob");
    if let Err(e) = tools::migrate_blob(&blob, &migrated, c.validate_every as usize, 1) {
        return fail("migrate_blob/err", format!("{:#}", e));
    }
    match blobfmt::parse_blob_file(&migrated, keylen) {
        Ok(m) if m.end == ParseEnd::Clean && m.version == 1 && m.records.len() == orig.records.len() && m.records.iter().zip(orig.records.iter()).all(|(a, b)| same_record(a, b) && a.pos == b.pos && a.hdr.blob_offset == b.hdr.blob_offset) => {}
        Ok(m) => return fail("migrate_blob/records-differ", format!("{} records vs {} (end {:?})", m.records.len(), orig.records.len(), m.end)),
        Err(e) => return fail("harness/parse", e.to_string()),
    }
    // 3. damage
    let mut bytes = std::fs::read(&blob).map_err(|e| Failure { clause: "harness/read".into(), detail: e.to_string(), step: 0, op: String::new() })?;
    let nrec = orig.records.len();
    // (index of damaged record, damage leaves later records reachable by skipping, class label, known-finding class)
    let mut damaged_rec: Option<usize> = None;
    let mut skippable = false;
    let mut header_damage = false;
    let mut undetectable: Option<&'static str> = None;
    match &c.dmg {
        Dmg::None => {}
        Dmg::Truncate { rec, class, frac } => {
            let len = bytes.len() as u64;
            let cutpos = if *class == 0 || nrec == 0 {
                header_damage = true;
                crate::damage::span(*frac, 0, (blobfmt::BLOB_HEADER_LEN as u64 - 1).min(len - 1))
            } else {
                let i = crate::damage::pick(*rec, nrec);
                let r = &orig.records[i];
                let (s, l) = match class {
                    1 => (r.pos, r.header_len),
                    2 => (r.meta_pos(), r.hdr.meta_size),
                    _ => (r.data_pos(), r.hdr.data_size),
                };
                // strictly inside the record: never exactly at its start (that is a well-formed shorter blob)
                let lo = (s.max(r.pos + 1)).min(r.end() - 1);
                let hi = (s + l).saturating_sub(1).max(lo).min(r.end() - 1);
                damaged_rec = Some(i);
                crate::damage::span(*frac, lo, hi)
            };
            bytes.truncate(cutpos as usize);
            labels.insert(format!("truncate_class_{}", class));
        }
        Dmg::Flip { rec, class, frac, mask } => {
            let (s, l) = if *class < 3 || nrec == 0 {
                header_damage = true;
                match class % 3 {
                    0 => (0u64, 8u64),
                    1 => {
                        undetectable = Some("validate_blob/accepts-flip/blob-header-version");
                        (8, 4)
                    }
                    _ => {
                        undetectable = Some("validate_blob/accepts-flip/blob-header-flags");
                        (12, 8)
                    }
                }
            } else {
                let i = crate::damage::pick(*rec, nrec);
                damaged_rec = Some(i);
                let r = &orig.records[i];
                let (s, l) = rec_class_range(r, keylen, *class);
                if l == 0 {
                    // empty region (no data): fall back to the header checksum
                    rec_class_range(r, keylen, 12)
                } else {
                    if *class == 13 {
                        undetectable = Some("validate_blob/accepts-flip/meta");
                    }
                    skippable = matches!(class, 3 | 5 | 8 | 9 | 10 | 11 | 12 | 14);
                    (s, l)
                }
            };
            let pos = crate::damage::span(*frac, s, s + l - 1) as usize;
            bytes[pos] ^= *mask;
            labels.insert(format!("flip_class_{}", class));
        }
    }
    if c.dmg == Dmg::None {
        return Ok(CaseOut { nontrivial: false, labels, stats, known_hits: known, weight: 1 });
    }
    let damaged = dir.join("damaged.blob");
    std::fs::write(&damaged, &bytes).map_err(|e| Failure { clause: "harness/write".into(), detail: e.to_string(), step: 0, op: String::new() })?;
    // 4. validate_blob must reject
    let verdict = tools::validate_blob(&damaged);
    if verdict.is_ok() {
        match undetectable {
            Some(sig) if findings.is_open(sig) => {
                known.insert(sig.to_string());
            }
            _ => return fail("validate_blob/accepts-damaged", format!("damage {:?} accepted", c.dmg)),
        }
    }
    // 5. recovery
    let before: Vec<&ParsedRec> = match damaged_rec {
        Some(i) => orig.records[..i].iter().collect(),
        None => vec![],
    };
    // variants: recovery_blob without / with skipping, and the in-place wrapper move_and_recover_blob (= skipping) called
    // with a backup path that already holds an older file (a repair repeated under the same backup name)
    for (variant, skip) in [(0u8, false), (1, true), (2, true)] {
        let out_dir = dir.join(match variant {
            0 => "rec-noskip",
            1 => "rec-skip",
            _ => "rec-inplace",
        });
        let _ = std::fs::remove_dir_all(&out_dir);
        let _ = std::fs::create_dir_all(&out_dir);
        let out = sut::blob_path(&out_dir, 0);
        let res = if variant == 2 {
            let _ = std::fs::copy(&damaged, &out);
            let bak = out_dir.join("saved.bak");
            // what an earlier run left under that name: the blob as it was after its first record
            let stale_len = orig.records.first().map_or(blobfmt::BLOB_HEADER_LEN as u64, |r| r.end());
            let all = std::fs::read(&blob).unwrap_or_default();
            let _ = std::fs::write(&bak, &all[..(stale_len as usize).min(all.len())]);
            labels.insert("in_place_recovery_over_existing_backup".into());
            tools::move_and_recover_blob(&out, &bak, c.validate_every as usize)
        } else {
            tools::recovery_blob(&damaged, &out, c.validate_every as usize, skip)
        };
        if header_damage {
            // nothing recoverable is promised when the blob header itself is damaged; the tool may refuse
            if res.is_err() {
                continue;
            }
        } else if let Err(e) = res {
            return fail("recovery_blob/err", format!("skip={}: {:#}", skip, e));
        }
        if let Err(e) = tools::validate_blob(&out) {
            return fail("recovery_blob/output-invalid", format!("skip={}: {:#}", skip, e));
        }
        let rec = match blobfmt::parse_blob_file(&out, keylen) {
            Ok(p) => p,
            Err(e) => return fail("harness/parse", e.to_string()),
        };
        if rec.end != ParseEnd::Clean {
            return fail("recovery_blob/output-unparsable", format!("skip={}: {:?}", skip, rec.end));
        }
        // compare record content (position-independent): key, ts, flags, meta, data
        // the meta map is re-serialized by the tools (hash map order may differ): compare it decoded
        let sig = |r: &ParsedRec| (r.hdr.key.clone(), r.hdr.timestamp, r.hdr.flags, blobfmt::parse_meta(&r.meta), r.data.clone(), r.hdr.data_checksum);
        let got: Vec<_> = rec.records.iter().map(sig).collect();
        let want_before: Vec<_> = before.iter().map(|r| sig(r)).collect();
        if undetectable.is_some() && verdict.is_ok() {
            // accepted damage (known finding): the tool copies the altered record; nothing more to judge here
            continue;
        }
        if got.len() < want_before.len() || got[..want_before.len()] != want_before[..] {
            return fail("recovery_blob/lost-record-before-damage", format!("skip={}: output has {} records, {} intact records precede the damage", skip, got.len(), want_before.len()));
        }
        if let Some(i) = damaged_rec {
            let after: Vec<_> = orig.records[i + 1..].iter().map(sig).collect();
            if skip && skippable && !after.is_empty() {
                labels.insert("skip_with_records_after".into());
                let mut want = want_before.clone();
                want.extend(after.clone());
                if got != want {
                    return fail("recovery_blob/lost-record-after-skipped", format!("output has {} records, expected {} (all but the damaged one)", got.len(), want.len()));
                }
            }
            // never invent or duplicate: output records are a subsequence of the intact originals
            let intact: Vec<_> = orig.records.iter().enumerate().filter(|(j, _)| *j != i).map(|(_, r)| sig(r)).collect();
            let mut it = intact.iter();
            for g in &got {
                if !it.any(|x| x == g) {
                    return fail("recovery_blob/invented-record", format!("skip={}: output contains a record that is not an intact original (in order)", skip));
                }
            }
        }
        for (j, r) in rec.records.iter().enumerate() {
            if r.hdr.blob_offset != r.pos {
                return fail("recovery_blob/stale-blob-offset", format!("skip={}: record {} sits at {} but its header says {}", skip, j, r.pos, r.hdr.blob_offset));
            }
        }
        // 6. a storage opened on the output serves every contained record with its original bytes
        let refs: Vec<&ParsedRec> = rec.records.iter().collect();
        let model = match model_of(&refs, &key_of) {
            Some(m) => m,
            None => return fail("harness/model", "recovered record has an unknown key or unparsable meta".into()),
        };
        let served = rt.block_on(async {
            let mut ex = Exec::new(c.cfg.clone(), out_dir.clone(), Checks { read: true, versions: true, counts: false, load_parts: true, ..Default::default() }, nkeys, 3, findings);
            match sut::open(&c.cfg, &out_dir, false).await {
                Ok(s) => ex.sut = Some(s),
                Err(e) => return ex.fail("recovered/init-err", format!("{:#}", e)),
            }
            ex.model = model;
            if ex.s().corrupted_blobs_count() != 0 {
                return ex.fail("recovered/quarantined", "storage quarantined the recovered blob".into());
            }
            ex.check().await.map_err(|mut f| {
                f.clause = format!("recovered/{}", f.clause);
                f
            })?;
            ex.close().await?;
            Ok(ex.stats.queries)
        })?;
        let _ = served;
    }
    if let Some(i) = damaged_rec {
        if i + 1 < nrec {
            labels.insert("damage_not_in_last_record".into());
        }
    }
    let nontrivial = damaged_rec.map_or(false, |i| i + 1 < nrec);
    Ok(CaseOut { nontrivial, labels, stats, known_hits: known, weight: 1 })
}

/// Long blobs and version migration: `n` small records written by the storage; recovery / migration of the UNDAMAGED blob
/// with a given `validate_every` must reproduce it record for record; with `v0` the blob is turned into a version-0 blob
/// (version 0 = key bytes stored reversed: the records are written under reversed keys and the header version is patched)
/// and migrated to version 1.
#[derive(Clone, Debug, Serialize, Deserialize)]
pub struct LongCase {
    pub keylen: usize,
    pub n: u32,
    pub validate_every: u32,
    pub v0: bool,
    pub rt_workers: usize,
}

fn long_key(keylen: usize, i: u32) -> Vec<u8> {
    let mut v = vec![(i % 251) as u8; keylen];
    v[..4].copy_from_slice(&i.to_be_bytes());
    v
}

fn long_cases(thorough: bool) -> Vec<LongCase> {
    let mut out = vec![];
    let ves: Vec<u32> = if thorough { vec![0, 1, 7, 64, 1024, 1025, 1030, 1200, 1499, 1500, 1501, 5000] } else { vec![0, 64, 1030, 5000] };
    for (keylen, n) in if thorough { vec![(8usize, 1500u32), (32, 1500), (8, 2600)] } else { vec![(8usize, 1500u32)] } {
        for v0 in [false, true] {
            for ve in &ves {
                out.push(LongCase { keylen, n, validate_every: *ve, v0, rt_workers: if *ve % 2 == 0 { 2 } else { 0 } });
            }
        }
    }
    out
}

pub fn run_long(c: &LongCase, dir: &Path, _findings: &Findings) -> Result<CaseOut, Failure> {
    let cfg = Cfg { keylen: c.keylen, allow_dup: true, rt_workers: c.rt_workers, ..Cfg::default() };
    let src = dir.join("src");
    let _ = std::fs::remove_dir_all(dir);
    let rt = cfg.runtime();
    let stored_key = |i: u32| -> Vec<u8> {
        let mut k = long_key(c.keylen, i);
        if c.v0 {
            k.reverse();
        }
        k
    };
    // expected final answer per logical key: None = deleted
    let mut expect: Vec<Option<Vec<u8>>> = vec![];
    let mut stats = Stats::default();
    rt.block_on(async {
        let s = match sut::open(&cfg, &src, false).await {
            Ok(s) => s,
            Err(e) => return fail("init/err", format!("{:#}", e)),
        };
        for i in 0..c.n {
            let val = value_bytes(i as usize, i % 41, 0);
            let mm = if i % 5 == 0 { meta_pool((1 + i % 3) as u8) } else { None };
            if let Err(e) = s.write(&stored_key(i), bytes::Bytes::from(val.clone()), 1 + (i % 3) as u64, mm.as_ref().map(sut::to_meta)).await {
                return fail("write/err", format!("{:#}", e));
            }
            expect.push(Some(val));
            if i % 97 == 50 {
                let victim = i - 13;
                if let Err(e) = s.delete(&stored_key(victim), 9, None, false).await {
                    return fail("delete/err", format!("{:#}", e));
                }
                expect[victim as usize] = None;
            }
        }
        stats.writes = c.n as u64;
        s.close().await.map_err(|e| Failure { clause: "close/err".into(), detail: format!("{:#}", e), step: 0, op: String::new() })
    })?;
    let blob = sut::blob_path(&src, 0);
    let orig = match blobfmt::parse_blob_file(&blob, c.keylen) {
        Ok(p) if p.end == ParseEnd::Clean => p,
        Ok(p) => return fail("blobfile/parse", format!("storage output does not parse: {:?}", p.end)),
        Err(e) => return fail("harness/parse", e.to_string()),
    };
    let _enter = rt.enter();
    let mut labels: BTreeSet<String> = BTreeSet::new();
    // recovery of the undamaged blob (any batch size of the write-back validation) reproduces it
    let recovered = dir.join("recovered.blob");
    if let Err(e) = tools::recovery_blob(&blob, &recovered, c.validate_every as usize, false) {
        return fail("recovery_blob/err-on-wellformed", format!("validate_every={}, {} records: {:#}", c.validate_every, orig.records.len(), e));
    }
    match blobfmt::parse_blob_file(&recovered, c.keylen) {
        Ok(m) if m.end == ParseEnd::Clean && m.records.len() == orig.records.len() && m.records.iter().zip(orig.records.iter()).all(|(a, b)| same_record(a, b) && a.pos == b.pos) => {}
        Ok(m) => return fail("recovery_blob/records-differ", format!("validate_every={}: {} records vs {} (end {:?})", c.validate_every, m.records.len(), orig.records.len(), m.end)),
        Err(e) => return fail("harness/parse", e.to_string()),
    }
    // several ISOLATED damaged records in one blob: header flips that leave the size fields intact (timestamp), separated by
    // intact records; with skipping every other record is kept, without it the prefix before the first damage.
    // (Two adjacent damaged records end the recovery - the statement only promises to get past an isolated one.)
    if orig.records.len() >= 10 {
        let n = orig.records.len();
        let victims = [n / 5, 2 * n / 5, 4 * n / 5];
        let mut bytes = std::fs::read(&blob).map_err(|e| Failure { clause: "harness/read".into(), detail: e.to_string(), step: 0, op: String::new() })?;
        for v in victims {
            let (s0, _) = rec_class_range(&orig.records[v], c.keylen, 10);
            bytes[s0 as usize] ^= 0x5a;
        }
        let multi = dir.join("multi-damaged.blob");
        std::fs::write(&multi, &bytes).map_err(|e| Failure { clause: "harness/write".into(), detail: e.to_string(), step: 0, op: String::new() })?;
        if tools::validate_blob(&multi).is_ok() {
            return fail("validate_blob/accepts-damaged", "three flipped timestamps accepted".into());
        }
        let sig = |r: &ParsedRec| (r.hdr.key.clone(), r.hdr.timestamp, r.hdr.flags, blobfmt::parse_meta(&r.meta), r.data.clone());
        for skip in [false, true] {
            let out = dir.join(if skip { "multi-skip.blob" } else { "multi-noskip.blob" });
            if let Err(e) = tools::recovery_blob(&multi, &out, c.validate_every as usize, skip) {
                return fail("recovery_blob/err", format!("several damaged records, skip={}: {:#}", skip, e));
            }
            let rec = match blobfmt::parse_blob_file(&out, c.keylen) {
                Ok(p) if p.end == ParseEnd::Clean => p,
                Ok(p) => return fail("recovery_blob/output-unparsable", format!("several damaged records, skip={}: {:?}", skip, p.end)),
                Err(e) => return fail("harness/parse", e.to_string()),
            };
            let want: Vec<_> = if skip { orig.records.iter().enumerate().filter(|(i, _)| !victims.contains(i)).map(|(_, r)| sig(r)).collect() } else { orig.records[..victims[0]].iter().map(sig).collect() };
            let got: Vec<_> = rec.records.iter().map(sig).collect();
            if got != want {
                return fail(if skip { "recovery_blob/lost-record-after-skipped" } else { "recovery_blob/lost-record-before-damage" }, format!("three isolated damaged records, skip={}: output has {} records, expected {}", skip, got.len(), want.len()));
            }
            let _ = std::fs::remove_file(&out);
        }
        labels.insert("several_damaged_records".into());
        let _ = std::fs::remove_file(&multi);
    }
    // an index file describes one state of its blob: next to a blob that lost its last record (cut exactly at a record
    // boundary, so the blob itself still validates) the index must be rejected
    let index = sut::index_path(&src, 0);
    if index.exists() && orig.records.len() >= 2 {
        let vdir = dir.join("index-vs-shorter-blob");
        let _ = std::fs::create_dir_all(&vdir);
        let bytes = std::fs::read(&blob).map_err(|e| Failure { clause: "harness/read".into(), detail: e.to_string(), step: 0, op: String::new() })?;
        let cut = orig.records.last().unwrap().pos as usize;
        let _ = std::fs::write(sut::blob_path(&vdir, 0), &bytes[..cut]);
        let _ = std::fs::copy(&index, sut::index_path(&vdir, 0));
        if let Err(e) = validate_index_dyn(c.keylen, &index) {
            return fail("validate_index/rejects-wellformed", format!("{:#}", e));
        }
        if tools::validate_blob(&sut::blob_path(&vdir, 0)).is_ok() && validate_index_dyn(c.keylen, &sut::index_path(&vdir, 0)).is_ok() {
            return fail("validate_index/accepts-index-of-another-blob-state", format!("the blob next to the index holds {} records, the index describes {}", orig.records.len() - 1, orig.records.len()));
        }
        labels.insert("index_vs_shorter_blob".into());
        let _ = std::fs::remove_dir_all(&vdir);
    }
    // migration (version 1 -> 1, or 0 -> 1 with the key bytes reversed back)
    if c.v0 {
        let mut bytes = std::fs::read(&blob).map_err(|e| Failure { clause: "harness/read".into(), detail: e.to_string(), step: 0, op: String::new() })?;
        bytes[8..12].copy_from_slice(&0u32.to_le_bytes());
        std::fs::write(&blob, bytes).map_err(|e| Failure { clause: "harness/write".into(), detail: e.to_string(), step: 0, op: String::new() })?;
        labels.insert("version0_source".into());
    }
    let out_dir = dir.join("migrated");
    let _ = std::fs::create_dir_all(&out_dir);
    let migrated = sut::blob_path(&out_dir, 0);
    if let Err(e) = tools::migrate_blob(&blob, &migrated, c.validate_every as usize, 1) {
        return fail("migrate_blob/err", format!("validate_every={} v0={}: {:#}", c.validate_every, c.v0, e));
    }
    if let Err(e) = tools::validate_blob(&migrated) {
        return fail("migrate_blob/output-invalid", format!("{:#}", e));
    }
    let m = match blobfmt::parse_blob_file(&migrated, c.keylen) {
        Ok(m) => m,
        Err(e) => return fail("harness/parse", e.to_string()),
    };
    if m.end != ParseEnd::Clean || m.version != 1 || m.records.len() != orig.records.len() {
        return fail("migrate_blob/records-differ", format!("version {} with {} records (end {:?}), source has {}", m.version, m.records.len(), m.end, orig.records.len()));
    }
    for (a, b) in m.records.iter().zip(orig.records.iter()) {
        let mut want_key = b.hdr.key.clone();
        if c.v0 {
            want_key.reverse();
        }
        let same = a.hdr.key == want_key && a.hdr.timestamp == b.hdr.timestamp && a.hdr.flags == b.hdr.flags && a.data == b.data && blobfmt::parse_meta(&a.meta) == blobfmt::parse_meta(&b.meta) && a.header_crc_ok && a.data_crc_ok && a.pos == b.pos && a.hdr.blob_offset == a.pos;
        if !same {
            return fail("migrate_blob/record-altered", format!("record at {}: key {:02x?} (expected {:02x?}), header checksum ok: {}", a.pos, &a.hdr.key[..4.min(a.hdr.key.len())], &want_key[..4.min(want_key.len())], a.header_crc_ok));
        }
    }
    // the storage serves every record of the migrated blob under its logical key
    let served = rt.block_on(async {
        let s = match sut::open(&cfg, &out_dir, false).await {
            Ok(s) => s,
            Err(e) => return fail("migrated/init-err", format!("{:#}", e)),
        };
        if s.corrupted_blobs_count() != 0 {
            return fail("migrated/quarantined", "storage quarantined the migrated blob".into());
        }
        let mut q = 0u64;
        for (i, want) in expect.iter().enumerate() {
            if i % 7 != 0 && i + 20 < expect.len() && want.is_some() {
                continue; // every 7th key, every deleted key and the last 20
            }
            q += 1;
            let got = s.read(&long_key(c.keylen, i as u32)).await;
            let ok = match (&got, want) {
                (Ok(sut::RR::Found(d)), Some(w)) => d == w,
                (Ok(sut::RR::Deleted(_)), None) => true,
                _ => false,
            };
            if !ok {
                return fail("migrated/read", format!("key {} is not served after migration: {}", i, match got { Ok(r) => r.class().to_string(), Err(e) => format!("Err({:#})", e) }));
            }
        }
        let _ = s.close().await;
        Ok(q)
    })?;
    stats.queries = served + 2 * orig.records.len() as u64;
    stats.steps = 1;
    labels.insert(format!("validate_every_{}", c.validate_every));
    Ok(CaseOut { nontrivial: orig.records.len() > 1024, labels, stats, known_hits: BTreeSet::new(), weight: 1 })
}

fn sample_long(c: &LongCase) -> Value {
    json!({"keylen": c.keylen, "records": c.n, "validate_every": c.validate_every, "source_version": if c.v0 { 0 } else { 1 }})
}

fn sample(c: &ToolCase) -> Value {
    json!({"keylen": c.cfg.keylen, "ops": render_ops(&c.ops), "damage": format!("{:?}", c.dmg), "validate_every": c.validate_every})
}

pub fn run(ctx: &RunCtx) -> PropResult {
    let mut report = Report::default();
    let findings = ctx.findings.clone();
    let runf = |c: &ToolCase, d: &Path| run_tool(c, d, &findings);
    run_replays::<ToolCase, _>(ctx, "tools", &ctx.verif_dir.join("replays").join("C16"), runf, &mut report);
    let runf = |c: &ToolCase, d: &Path| run_tool(c, d, &findings);
    run_generated(ctx, "tools", ctx.tier.pick(5000, 60_000), tool_strategy, runf, &sample, &mut report);
    let runf = |c: &LongCase, d: &Path| run_long(c, d, &findings);
    run_enumerated(ctx, "tools-long", long_cases(ctx.tier == Tier::Thorough), runf, &sample_long, &mut report);
    PropResult {
        report,
        level: "fault_enumeration",
        rule: "A generated single-blob history (key lengths 4/8/32/128 so that read_index applies; values across the 4 KiB / 80 KiB thresholds; metadata; deletion markers) is written by the storage. Undamaged: validate_blob and validate_index accept, read_index reports exactly the (key, blob_offset) pairs found by the harness's own parser, migrate_blob output is record-for-record equal. Then one generated damage: truncation strictly inside a chosen record at a position class (blob header / record header / meta / data), or one XOR-ed byte in one of 15 position classes (blob magic, version, flags; record magic, key length, key, meta_size, data_size, flags, blob_offset, timestamp, data checksum, header checksum; meta; data). Oracle: validate_blob rejects; recovery_blob (skip false and true) succeeds unless the blob header itself is damaged, its output validates, parses, starts with every intact record that precedes the damage, with skip also holds every record after it when the damage leaves the size fields intact, contains nothing but intact originals in order, every header's blob_offset equals its position, and a Storage opened on the output serves every contained record (read, read_with, read_all + load, load_data/load_meta) with the original bytes. An enumerated phase (tools-long) writes 1500-2600 small records (markers, metas) and requires that recovery_blob and migrate_blob of the UNDAMAGED blob succeed and reproduce it record for record for validate_every in {0, 1, 7, 64, 1024, 1025, 1030, 1200, n-1, n, n+1, 5000}, also from a version-0 source (records stored under reversed keys, header version patched to 0): the version-1 output must carry the logical keys; in the same phase three separated records get a flipped timestamp byte: recovery with skipping keeps exactly all others, without skipping the prefix; and an index copied next to a blob cut at its last record boundary must be rejected by validate_index; the version-1 output must carry the logical keys with valid checksums and a Storage opened on it must serve them. Non-trivial = the damage hits a record that is not the last one (tools); more than 1024 records (tools-long). distinct = FNV hash of the serialized case.".into(),
        assumptions: common_assumptions(),
    }
}

pub fn replay_other(phase: &str, case: &Value, dir: &Path, findings: &Findings) -> Option<Result<CaseOut, Failure>> {
    if phase == "tools" {
        let runf = |c: &ToolCase, d: &Path| run_tool(c, d, findings);
        serde_json::from_value::<ToolCase>(case.clone()).ok().map(|c| guarded(&c, dir, &runf))
    } else if phase == "tools-long" {
        let runf = |c: &LongCase, d: &Path| run_long(c, d, findings);
        serde_json::from_value::<LongCase>(case.clone()).ok().map(|c| guarded(&c, dir, &runf))
    } else {
        None
    }
}
