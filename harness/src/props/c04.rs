//! C04 Representation transparency: lifecycle and maintenance never change answers.
use super::history::*;
use super::{common_assumptions, PropResult};
use crate::interp::Checks;
use crate::ops::GenParams;
use crate::runner::*;
use crate::sut::KEY_LENS;
use std::collections::BTreeSet;

fn nt(l: &BTreeSet<String>) -> bool {
    has(l, "repr_change") && (has(l, "restore") || has(l, "dump_completed") || has(l, "offloaded") || has(l, "force_update") || has(l, "delete_in_closed"))
}

pub fn profile() -> Profile {
    Profile {
        id: "C04",
        phase: "history",
        checks: Checks { read: true, versions: true, lifecycle: true, filters: true, counts: true, ..Default::default() },
        gen: GenParams { nkeys: 4, ts_span: 5, metas: 3, max_ops: 50, w_write: 34, w_delete: 14, w_switch: 6, w_wait: 8, w_reopen: 2, w_lifecycle: 24, w_maint: 12, ..Default::default() },
        keylens: KEY_LENS,
        short_defer: true,
        nt,
    }
}

pub fn run(ctx: &RunCtx) -> PropResult {
    let mut report = Report::default();
    let p = profile();
    run_profile(ctx, &p, ctx.tier.pick(5000, 60_000), &mut report);
    PropResult {
        report,
        level: "exploration",
        rule: "proptest histories interleaving data operations with try_close/try_create/try_restore_active_blob, force_update_active_blob (always / never / records>=3 / no-active predicates), free_excess_resources, offload_buffer(level 0..2), fsyncdata, wait-idle (dumps complete there) or no wait (dump still in flight), deferred dump times of 2-5 ms or 60 s, both runtime flavours. Oracle after EVERY step: each lifecycle call returns Ok exactly when the model precondition holds; every read/contains/read_all*/read_with for every key equals the model, and so do records_count, records_count_detailed, records_count_in_active_blob and blobs_count (count queries are queries too); check_filters/check_filter never deny a stored key; the following write/delete succeed. Non-trivial = a representation change (close, restore, completed dump, offload, forced switch, delete into a closed blob) happened while records existed. distinct = FNV hash of the serialized case.".into(),
        assumptions: common_assumptions(),
    }
}
