//! C14 Cancellation safety: a dropped operation future leaves a consistent storage.
use super::{common_assumptions, PropResult};
use crate::blobfmt;
use crate::findings::Findings;
use crate::interp::{model_apply, Checks, Exec, Failure};
use crate::model::Model;
use crate::ops::*;
use crate::runner::*;
use crate::sut::{self, key_bytes, to_meta, wait_quiet, Cfg, LoadMode};
use bytes::Bytes;
use proptest::prelude::*;
use serde::{Deserialize, Serialize};
use serde_json::{json, Value};
use std::collections::BTreeSet;
use std::future::Future;
use std::path::Path;
use std::pin::Pin;
use std::sync::atomic::{AtomicBool, Ordering};
use std::sync::Arc;
use std::task::{Context, Poll, Wake, Waker};
use std::time::Duration;

#[derive(Clone, Debug, Serialize, Deserialize)]
pub struct CancelCase {
    pub cfg: Cfg,
    pub prefix: Vec<Op>,
    pub victim: Op,
    /// the victim future is dropped after this many resumptions (if it has not completed before)
    pub k: u16,
    pub suffix: Vec<Op>,
    pub final_lazy: bool,
    pub final_remove_idx: bool,
    /// units of tokio's cooperative budget left to the poll after which the future is dropped: after that many of the
    /// runtime's own resources (locks, channels, join handles) have been used in that poll, the next one answers Pending
    /// although it is free - a suspension point no scheduling produces on demand. None = the budget is left alone
    #[serde(default)]
    pub budget: Option<u8>,
}

pub const CREATE_PARTIAL: &str = "cancel/create-leaves-partial-blob";
pub const DELETE_PARTIAL: &str = "cancel/delete-partially-applied";

pub fn cancel_strategy() -> BoxedStrategy<CancelCase> {
    // (w_maint: filter off-load / free / fsync before the victim - a cancelled call may find off-loaded filter buffers)
    let pre = GenParams { nkeys: 3, ts_span: 4, metas: 2, max_ops: 14, w_write: 44, w_delete: 10, w_switch: 16, w_wait: 8, w_reopen: 8, w_lifecycle: 10, w_maint: 8, ..Default::default() };
    let suf = GenParams { nkeys: 3, ts_span: 4, metas: 2, max_ops: 8, w_write: 60, w_delete: 20, w_switch: 0, w_wait: 10, w_reopen: 6, ..Default::default() };
    let vlen = prop_oneof![3 => 0u32..200, 2 => (0u8..2, -2i8..3).prop_map(|(t, d)| vlen_rel(t, d)), 2 => Just(100_000u32), 1 => Just(5000u32)];
    let victim = prop_oneof![
        8 => (0u8..3, 0u64..5, 0u8..2, vlen).prop_map(|(key, ts, meta, vlen)| Op::Write { key, ts, meta, vlen, fill: 0 }),
        5 => (0u8..3, 0u64..5, 0u8..2, any::<bool>()).prop_map(|(key, ts, meta, only_if)| Op::Delete { key, ts, meta, only_if }),
        3 => Just(Op::CloseActive),
        2 => Just(Op::CreateActive),
        2 => Just(Op::Restore),
        1 => Just(Op::Fsync),
        // calls without a data effect of their own, which nevertheless touch indexes / the active blob on behalf of the caller
        2 => Just(Op::Free),
        2 => pred_strategy().prop_map(Op::ForceUpdate),
        // queries: they change nothing, but they walk blobs whose index may have to be read (or loaded) meanwhile
        3 => (0u8..3, 0u8..5).prop_map(|(key, kind)| Op::Probe { key, kind }),
        // off-loading walks every closed blob with the list locked for writing
        2 => (0u8..3, 0u8..5).prop_map(|(level, need)| Op::Offload { level, need }),
    ];
    let cfg = (cfg_strategy(&[8, 33], true), prop::bool::weighted(0.6)).prop_map(|(mut c, current_thread)| {
        c.allow_dup = true;
        if current_thread {
            c.rt_workers = 0;
        }
        c
    });
    let k = prop_oneof![3 => 0u16..2, 4 => 1u16..4, 2 => 3u16..7, 1 => 6u16..14];
    let k = (k, prop_oneof![3 => Just(None), 2 => (0u8..24).prop_map(Some)]);
    (cfg, prop::collection::vec(op_strategy(&pre), 0..pre.max_ops), victim, k, prop::collection::vec(op_strategy(&suf), 0..suf.max_ops), prop::bool::weighted(0.3), any::<bool>())
        .prop_map(|(cfg, prefix, victim, (k, budget), suffix, final_lazy, final_remove_idx)| CancelCase { cfg, prefix, victim, k, suffix, final_lazy, final_remove_idx, budget })
        .boxed()
}

struct Flag(AtomicBool, Waker);
impl Wake for Flag {
    fn wake(self: Arc<Self>) {
        self.0.store(true, Ordering::SeqCst);
        self.1.wake_by_ref();
    }
}

/// Polls `fut`; re-polls only after its waker fired; drops it after `k` resumptions. Returns (output if completed, resumptions used)
async fn poll_k<F: Future>(fut: F, k: usize) -> (Option<F::Output>, usize) {
    poll_kb(fut, k, None).await
}

/// As `poll_k`; the last poll (the one after which the future is dropped) runs with `budget` units of the cooperative
/// budget: the harness yields (the runtime then polls it with a fresh budget of 128), uses up the rest with
/// `consume_budget`, and polls the victim without any await in between
async fn poll_kb<F: Future>(fut: F, k: usize, budget: Option<u8>) -> (Option<F::Output>, usize) {
    let mut fut: Pin<Box<F>> = Box::pin(fut);
    let mut used = 0usize;
    loop {
        if let (true, Some(j)) = (used == k, budget) {
            tokio::task::yield_now().await;
            let mut left = 128usize;
            while left > j as usize && tokio::task::coop::has_budget_remaining() {
                tokio::task::coop::consume_budget().await;
                left -= 1;
            }
        }
        let outer = futures::future::poll_fn(|cx| Poll::Ready(cx.waker().clone())).await;
        let flag = Arc::new(Flag(AtomicBool::new(false), outer));
        let w = Waker::from(flag.clone());
        let mut cx = Context::from_waker(&w);
        if let Poll::Ready(v) = fut.as_mut().poll(&mut cx) {
            return (Some(v), used);
        }
        if used == k {
            drop(fut);
            return (None, used);
        }
        let mut spins = 0u32;
        while !flag.0.load(Ordering::SeqCst) {
            tokio::time::sleep(Duration::from_micros(200)).await;
            spins += 1;
            if spins > 300_000 {
                // the future never asked to be polled again: treat as cancelled here
                drop(fut);
                return (None, used);
            }
        }
        used += 1;
    }
}

async fn data_check(ex: &mut Exec<'_>, nkeys: u8) -> Result<(), Failure> {
    for key in 0..=nkeys {
        ex.check_read(key).await?;
        ex.check_versions(key).await?;
    }
    Ok(())
}

pub fn run_cancel(c: &CancelCase, dir: &Path, findings: &Findings) -> Result<CaseOut, Failure> {
    let rt = c.cfg.runtime();
    let group = pearl::verif::inflight_group_for_this_thread();
    let nkeys = 3u8;
    let res = rt.block_on(async {
        let mut ex = Exec::new(c.cfg.clone(), dir.to_path_buf(), Checks { read: true, versions: true, ..Default::default() }, nkeys, 2, findings);
        ex.start().await?;
        for (i, op) in c.prefix.iter().enumerate() {
            ex.apply(i, op).await?;
        }
        ex.wait_msgs().await?;
        data_check(&mut ex, nkeys).await?;
        let vi = c.prefix.len();
        ex.step = vi;
        ex.cur_op = format!("cancel({:?}, k={})", c.victim, c.k);
        // the two worlds
        let m0 = ex.model.clone();
        let mut m1 = ex.model.clone();
        model_apply(&mut m1, c.cfg.keylen, vi, &c.victim);
        let keylen = c.cfg.keylen;
        let k = c.k as usize;
        let s = ex.sut.as_deref().expect("open");
        let (completed, used): (Option<bool>, usize) = match &c.victim {
            Op::Write { key, ts, meta, vlen, fill } => {
                let mm = meta_pool(*meta);
                let val = value_bytes(vi, resolve_vlen(*vlen, keylen, &mm), *fill);
                let kb = key_bytes(keylen, *key);
                let (r, u) = poll_kb(s.write(&kb, Bytes::from(val), *ts, mm.as_ref().map(to_meta)), k, c.budget).await;
                (r.map(|x| x.is_ok()), u)
            }
            Op::Delete { key, ts, meta, only_if } => {
                let mm = meta_pool(*meta);
                let kb = key_bytes(keylen, *key);
                let (r, u) = poll_kb(s.delete(&kb, *ts, mm.as_ref().map(to_meta), *only_if), k, c.budget).await;
                (r.map(|x| x.is_ok()), u)
            }
            Op::CloseActive => {
                let (r, u) = poll_kb(s.try_close_active(), k, c.budget).await;
                (r.map(|x| x.is_ok()), u)
            }
            Op::CreateActive => {
                let (r, u) = poll_kb(s.try_create_active(), k, c.budget).await;
                (r.map(|x| x.is_ok()), u)
            }
            Op::Restore => {
                let (r, u) = poll_kb(s.try_restore_active(), k, c.budget).await;
                (r.map(|x| x.is_ok()), u)
            }
            Op::Free => {
                let (r, u) = poll_kb(s.free_excess_resources(), k, c.budget).await;
                (r.map(|_| true), u)
            }
            Op::ForceUpdate(p) => {
                let (r, u) = poll_kb(s.force_update(*p), k, c.budget).await;
                (r.map(|_| true), u)
            }
            Op::Probe { key, kind } => {
                let kb = key_bytes(keylen, *key);
                let (r, u) = poll_kb(crate::interp::run_probe(s, &kb, *kind), k, c.budget).await;
                (r.map(|_| true), u)
            }
            Op::Offload { level, need } => {
                let sm = ex.sut.as_mut().expect("open");
                let (r, u) = poll_kb(sm.offload(offload_needed(*need), *level as usize), k, c.budget).await;
                (r.map(|_| true), u)
            }
            _ => {
                let (r, u) = poll_kb(s.fsyncdata(), k, c.budget).await;
                (r.map(|x| x.is_ok()), u)
            }
        };
        let mut labels: BTreeSet<String> = BTreeSet::new();
        labels.insert(format!("victim_{}", c.victim.name()));
        let dropped_pending = completed.is_none();
        if dropped_pending {
            labels.insert("dropped_pending".into());
            if used >= 1 {
                labels.insert("dropped_after_ge1_resumption".into());
            }
        }
        // detached blocking closures submitted by the dropped future keep running: wait for them
        let t0 = std::time::Instant::now();
        while group.load(Ordering::SeqCst) > 0 && t0.elapsed() < Duration::from_secs(30) {
            tokio::time::sleep(Duration::from_micros(300)).await;
        }
        let _ = wait_quiet(ex.s(), false, crate::interp::max_wait()).await;

        // records the victim appends, with their physical position (blob, append index) at victim time
        let mut victim_recs: Vec<(usize, usize, crate::model::Rec)> = vec![];
        for (b, recs) in &m1.blobs {
            let have = m0.blobs.get(b).map_or(0, |v| v.len());
            for (i, r) in recs.iter().enumerate().skip(have) {
                victim_recs.push((*b, i, r.clone()));
            }
        }
        let nrec = victim_recs.len().min(4);
        let full: u32 = if nrec == 0 { 0 } else { (1u32 << nrec) - 1 };
        // inserts the records selected by `mask` at their physical positions (creating a blob the call itself created)
        let insert = |base: &Model, mask: u32, as_active: bool| -> Option<Model> {
            let mut m = base.clone();
            for (j, (b, i, r)) in victim_recs.iter().enumerate().take(nrec) {
                if mask & (1 << j) == 0 {
                    continue;
                }
                if !m.present().contains(b) {
                    if m.blobs.contains_key(b) {
                        return None;
                    }
                    m.blobs.insert(*b, vec![]);
                    if as_active && m.active.is_none() {
                        m.active = Some(*b);
                    } else {
                        m.closed.push(*b);
                    }
                    m.note_id(*b);
                    m.next_id = m.next_id.max(*b + 1);
                }
                let v = m.blobs.get_mut(b)?;
                if *i > v.len() {
                    return None;
                }
                v.insert(*i, r.clone());
            }
            Some(m)
        };
        // Worlds. `clean` = the victim is applied entirely or not at all (possibly only from a restart on).
        struct World {
            model: Model,
            alive: bool,
            mask: u32,
            clean: bool,
        }
        let mut worlds: Vec<World> = vec![];
        let is_logical_noop = matches!(c.victim, Op::Fsync | Op::Free);
        match completed {
            Some(true) => worlds.push(World { model: m1.clone(), alive: true, mask: full, clean: true }),
            Some(false) => worlds.push(World { model: m0.clone(), alive: true, mask: 0, clean: true }),
            None => {
                worlds.push(World { model: m0.clone(), alive: true, mask: 0, clean: true });
                if !is_logical_noop {
                    worlds.push(World { model: m1.clone(), alive: true, mask: full, clean: true });
                }
                // a delete marks several blobs one after another: dropped in between, some of them are marked
                if matches!(c.victim, Op::Delete { .. }) && nrec >= 2 {
                    for mask in 1..full {
                        if let Some(m) = insert(&m0, mask, true) {
                            worlds.push(World { model: m, alive: true, mask, clean: false });
                        }
                    }
                }
            }
        }
        let mut last_err: Option<Failure> = None;
        macro_rules! judge {
            ($stage:expr) => {{
                for w in worlds.iter_mut() {
                    if w.alive {
                        ex.model = w.model.clone();
                        if let Err(f) = data_check(&mut ex, nkeys).await {
                            w.alive = false;
                            last_err = Some(f);
                        }
                    }
                }
                if worlds.iter().all(|w| !w.alive) {
                    let f = last_err.clone().unwrap();
                    return ex.fail(&format!("cancel/{}/{}/{}", c.victim.name(), $stage, f.clause), format!("no world (victim applied / not applied / applied from a restart on) matches after dropping the future at resumption {} (completed: {:?}): {}", used, completed, f.detail));
                }
            }};
        }
        // records that reached the file but not the index take effect at the next start: every alive world may gain
        // any subset of the records it lacks (later calls of the session, e.g. delete only_if_presented, did not see them)
        let mut restart_seen = false;
        macro_rules! admit_late {
            () => {{
                // (an unindexed record stays invisible across a restart that finds a valid index file, so this can
                // happen at any later restart, not only the first one)
                if dropped_pending && nrec > 0 && worlds.len() < 400 {
                    let mut extra = vec![];
                    for w in worlds.iter().filter(|w| w.alive) {
                        let missing = full & !w.mask;
                        let mut sub = missing;
                        while sub != 0 {
                            if let Some(m) = insert(&w.model, sub, false) {
                                let clean = w.mask == 0 && sub == full;
                                extra.push(World { model: m, alive: true, mask: w.mask | sub, clean });
                            }
                            sub = (sub - 1) & missing;
                        }
                    }
                    if !extra.is_empty() {
                        labels.insert("late_worlds_admitted_at_restart".into());
                    }
                    worlds.retain(|w| w.alive);
                    worlds.extend(extra);
                }
                restart_seen = true;
            }};
        }
        judge!("after-drop");
        if worlds.iter().filter(|w| w.alive).count() > 1 {
            labels.insert("worlds_indistinguishable".into());
        } else if worlds.iter().any(|w| w.alive && w.mask == full && full != 0) {
            labels.insert("world_applied".into());
        } else if worlds.iter().any(|w| w.alive && w.mask == 0) {
            labels.insert("world_not_applied".into());
        }
        // later operations succeed and keep matching a surviving world
        for (j, op) in c.suffix.iter().enumerate() {
            let idx = vi + 1 + j;
            if matches!(op, Op::Reopen { .. }) {
                admit_late!();
            }
            for w in worlds.iter_mut() {
                model_apply(&mut w.model, keylen, idx, op);
            }
            ex.model = worlds[0].model.clone();
            ex.checks.versions = false; // delete counts differ between the worlds; only data answers are judged
            let r = ex.apply(idx, op).await;
            ex.checks.versions = true;
            r.map_err(|mut f| {
                f.clause = format!("cancel/later-op/{}", f.clause);
                f
            })?;
            judge!("later-state");
        }
        // final restart: clean storage, every blob file parses
        ex.wait_msgs().await?;
        let fin = Op::Reopen { lazy: c.final_lazy, remove_all_idx: c.final_remove_idx, damage: vec![] };
        let idx = vi + 1 + c.suffix.len();
        admit_late!();
        for w in worlds.iter_mut() {
            model_apply(&mut w.model, keylen, idx, &fin);
        }
        ex.model = worlds[0].model.clone();
        ex.apply(idx, &fin).await?;
        let corrupted = ex.s().corrupted_blobs_count();
        if corrupted != 0 {
            // known finding: a cancelled blob creation leaves an empty / header-less blob file behind
            let partial_only = std::fs::read_dir(dir.join("corrupted")).map(|rd| rd.flatten().all(|e| e.metadata().map(|m| m.len() < blobfmt::BLOB_HEADER_LEN as u64).unwrap_or(false))).unwrap_or(false);
            if partial_only && ex.known(CREATE_PARTIAL) {
                labels.insert("partial_blob_quarantined".into());
            } else {
                return ex.fail("cancel/blob-quarantined-at-restart", format!("corrupted_blobs_count = {} after a clean close", corrupted));
            }
        }
        judge!("after-restart");
        if !worlds.iter().any(|w| w.alive && w.clean) {
            if ex.known(DELETE_PARTIAL) {
                labels.insert("delete_partially_applied".into());
            } else {
                return ex.fail("cancel/delete-partially-applied", format!("the delete dropped at resumption {} marked some of the blobs holding the key but not all of them", used));
            }
        }
        if worlds.iter().any(|w| w.alive && w.clean && w.mask == full && full != 0) && worlds.iter().filter(|w| w.alive).count() == 1 && labels.contains("world_not_applied") {
            labels.insert("applied_from_restart".into());
        }
        ex.close().await?;
        for (id, is_idx, p) in sut::list_files(dir) {
            if is_idx {
                continue;
            }
            match blobfmt::parse_blob_file(&p, keylen) {
                Ok(pb) if pb.end == blobfmt::ParseEnd::Clean && pb.magic_ok => {}
                Ok(pb) => return ex.fail("cancel/blob-does-not-parse", format!("blob {}: {:?}", id, pb.end)),
                Err(e) => return ex.fail("harness/read", e.to_string()),
            }
            if let Err(e) = pearl::tools::validate_blob(&p) {
                return ex.fail("cancel/validate_blob", format!("blob {}: {:#}", id, e));
            }
        }
        let _ = LoadMode::Full;
        for l in ex.labels.iter() {
            labels.insert(l.to_string());
        }
        Ok(CaseOut { nontrivial: dropped_pending && used >= 1, labels, stats: ex.stats.clone(), known_hits: ex.known_hits.clone(), weight: 1 })
    });
    drop(rt);
    res
}

fn sample(c: &CancelCase) -> Value {
    json!({"cfg": format!("keylen={} rt_workers={} defer_ms={:?}", c.cfg.keylen, c.cfg.rt_workers, c.cfg.defer_ms), "prefix": render_ops(&c.prefix), "victim": render_ops(std::slice::from_ref(&c.victim)), "drop_after_resumptions": c.k, "budget_units_in_last_poll": c.budget, "suffix": render_ops(&c.suffix), "final_reopen": format!("lazy={} remove_indexes={}", c.final_lazy, c.final_remove_idx)})
}

/// Fault enumeration over suspension points: every victim kind x every k, both runtime flavours,
/// fresh and reopened active blob
fn enumerated(thorough: bool) -> Vec<CancelCase> {
    enum_cases(if thorough { 16 } else { 8 }, thorough, &[None])
}

/// The same grid with the cooperative budget of the last poll cut to j units: the (j+1)-th runtime resource that poll
/// touches (lock, channel, join handle) answers Pending, so the future is dropped at suspension points which never pend
/// by themselves (e.g. an uncontended lock taken after a blob has been moved out of its slot)
fn enumerated_budget(thorough: bool) -> Vec<CancelCase> {
    let js: Vec<Option<u8>> = (0..if thorough { 40u8 } else { 20 }).map(Some).collect();
    enum_cases(if thorough { 6 } else { 3 }, true, &js)
}

fn enum_cases(kmax: usize, thorough: bool, budgets: &[Option<u8>]) -> Vec<CancelCase> {
    let mut out = vec![];
    let victims = vec![
        Op::Write { key: 1, ts: 4, meta: 0, vlen: 60, fill: 0 },
        Op::Write { key: 1, ts: 4, meta: 1, vlen: vlen_rel(1, 1), fill: 0 },
        Op::Write { key: 1, ts: 4, meta: 0, vlen: 100_000, fill: 0 },
        Op::Delete { key: 0, ts: 3, meta: 0, only_if: false },
        Op::Delete { key: 0, ts: 1, meta: 0, only_if: true },
        Op::CloseActive,
        Op::CreateActive,
        Op::Restore,
        Op::Fsync,
        Op::Free,
        Op::ForceUpdate(crate::sut::Pred::Always),
        Op::Probe { key: 0, kind: 0 },
        Op::Probe { key: 1, kind: 1 },
        Op::Probe { key: 0, kind: 3 },
        Op::Offload { level: 0, need: 0 },
    ];
    for (vi, victim) in victims.iter().enumerate() {
        for rt_workers in [0usize, 2] {
            for reopened in [false, true] {
                for k in 0..kmax {
                  for budget in budgets {
                    if !thorough && rt_workers == 2 && k > 4 {
                        continue;
                    }
                    let mut prefix = vec![
                        Op::Write { key: 0, ts: 2, meta: 0, vlen: 30, fill: 0 },
                        Op::Write { key: 1, ts: 1, meta: 0, vlen: 31, fill: 0 },
                        Op::Switch,
                        Op::Write { key: 0, ts: 1, meta: 0, vlen: 32, fill: 0 },
                        Op::WaitIdle,
                        Op::Switch,
                        Op::Write { key: 0, ts: 2, meta: 1, vlen: 33, fill: 0 },
                        Op::Write { key: 2, ts: 0, meta: 0, vlen: 34, fill: 0 },
                    ];
                    if reopened {
                        prefix.push(Op::Reopen { lazy: false, remove_all_idx: false, damage: vec![] });
                    }
                    match victim {
                        Op::CreateActive | Op::Restore => prefix.push(Op::CloseActive),
                        // a marker appended to a closed blob loads its index back into memory (re-dump deferred for a minute):
                        // the victim then meets a closed blob whose index has to be dumped
                        Op::Free | Op::Offload { .. } => prefix.push(Op::Delete { key: 1, ts: 3, meta: 0, only_if: true }),
                        _ => {}
                    }
                    let suffix = vec![Op::Write { key: 2, ts: 1, meta: 0, vlen: 35, fill: 0 }, Op::Delete { key: 1, ts: 2, meta: 0, only_if: true }, Op::Write { key: 0, ts: 4, meta: 0, vlen: 36, fill: 0 }];
                    out.push(CancelCase { cfg: Cfg { keylen: 8, rt_workers, allow_dup: true, defer_ms: if matches!(victim, Op::Free | Op::Offload { .. }) { (60_000, 180_000) } else { (2, 5) }, ..Cfg::default() }, prefix, victim: victim.clone(), k: k as u16, suffix, final_lazy: false, final_remove_idx: (k + vi) % 2 == 0, budget: *budget });
                  }
                }
            }
        }
    }
    out
}

/// Cancelled start-up: after a generated prefix the storage is closed, a new one is built on the directory with its own
/// one-permit dump semaphore, `init` / `init_lazy` is polled k+1 times and dropped, then the same object is initialised again.
#[derive(Clone, Debug, Serialize, Deserialize)]
pub struct InitCase {
    pub cfg: Cfg,
    pub prefix: Vec<Op>,
    pub k: u16,
    pub lazy: bool,
    pub remove_idx: bool,
    pub suffix: Vec<Op>,
    /// cooperative-budget units of the last poll (see CancelCase::budget)
    #[serde(default)]
    pub budget: Option<u8>,
}

pub fn init_strategy() -> BoxedStrategy<InitCase> {
    let pre = GenParams { nkeys: 3, ts_span: 4, metas: 2, max_ops: 16, w_write: 50, w_delete: 12, w_switch: 20, w_wait: 8, w_reopen: 0, w_lifecycle: 6, ..Default::default() };
    let suf = GenParams { nkeys: 3, ts_span: 4, metas: 2, max_ops: 8, w_write: 50, w_delete: 20, w_switch: 14, w_wait: 10, w_reopen: 6, w_lifecycle: 8, ..Default::default() };
    let cfg = (cfg_strategy(&[8, 33], true), prop::bool::weighted(0.6)).prop_map(|(mut c, current_thread)| {
        c.allow_dup = true;
        if current_thread {
            c.rt_workers = 0;
        }
        c
    });
    (cfg, prop::collection::vec(op_strategy(&pre), 1..pre.max_ops), (0u16..16, prop_oneof![2 => Just(None), 3 => (0u8..128).prop_map(Some)]), any::<bool>(), any::<bool>(), prop::collection::vec(op_strategy(&suf), 0..suf.max_ops))
        .prop_map(|(cfg, prefix, (k, budget), lazy, remove_idx, suffix)| InitCase { cfg, prefix, k, lazy, remove_idx, suffix, budget })
        .boxed()
}

pub fn run_init(c: &InitCase, dir: &Path, findings: &Findings) -> Result<CaseOut, Failure> {
    let rt = c.cfg.runtime();
    let group = pearl::verif::inflight_group_for_this_thread();
    let nkeys = 3u8;
    let res = rt.block_on(async {
        let mut ex = Exec::new(c.cfg.clone(), dir.to_path_buf(), Checks { read: true, versions: true, ..Default::default() }, nkeys, 2, findings);
        ex.start().await?;
        for (i, op) in c.prefix.iter().enumerate() {
            ex.apply(i, op).await?;
        }
        ex.wait_msgs().await?;
        ex.close().await?;
        ex.step = c.prefix.len();
        ex.cur_op = format!("cancel(init lazy={}, k={})", c.lazy, c.k);
        if c.remove_idx {
            for (_, is_idx, p) in sut::list_files(dir) {
                if is_idx {
                    let _ = std::fs::remove_file(p);
                }
            }
        }
        let (s, info) = match sut::open_cancel_init(&c.cfg, dir, c.lazy, c.k as usize, c.budget, &group).await {
            Ok(x) => x,
            Err(e) => return ex.fail("cancel/init/reinit-err", format!("init of the same object after a dropped init failed: {:#}", e)),
        };
        if info.permits_after_drop != 1 {
            return ex.fail("cancel/init/dump-permit-leaked", format!("init dropped after {} polls: the dump semaphore (1 permit, shared between storages on one disk) has {} permits although nothing is in flight - the next init or index dump waits for ever", info.polls, info.permits_after_drop));
        }
        let mut labels: BTreeSet<String> = BTreeSet::new();
        if info.dropped_pending {
            labels.insert("init_dropped_pending".into());
        }
        ex.sut = Some(s);
        ex.model.restart(c.lazy);
        data_check(&mut ex, nkeys).await.map_err(|mut f| {
            f.clause = format!("cancel/init/after-reinit/{}", f.clause);
            f
        })?;
        for (j, op) in c.suffix.iter().enumerate() {
            ex.apply(c.prefix.len() + 1 + j, op).await.map_err(|mut f| {
                f.clause = format!("cancel/init/later-op/{}", f.clause);
                f
            })?;
            data_check(&mut ex, nkeys).await?;
        }
        ex.wait_msgs().await?;
        ex.reopen(false, false, &[]).await?;
        if ex.s().corrupted_blobs_count() != 0 {
            return ex.fail("cancel/init/blob-quarantined-at-restart", format!("corrupted_blobs_count = {}", ex.s().corrupted_blobs_count()));
        }
        data_check(&mut ex, nkeys).await?;
        ex.close().await?;
        for l in ex.labels.iter() {
            labels.insert(l.to_string());
        }
        Ok(CaseOut { nontrivial: info.dropped_pending, labels, stats: ex.stats.clone(), known_hits: ex.known_hits.clone(), weight: 1 })
    });
    drop(rt);
    res
}

fn sample_init(c: &InitCase) -> Value {
    json!({"cfg": format!("keylen={} rt_workers={} bloom={:?}", c.cfg.keylen, c.cfg.rt_workers, c.cfg.bloom), "prefix": render_ops(&c.prefix), "victim": format!("init(lazy={}) dropped after {} polls, index files removed first: {}", c.lazy, c.k + 1, c.remove_idx), "suffix": render_ops(&c.suffix)})
}

/// Overlap phase: the next call is issued while a file operation of the dropped future is still queued.
/// The runtime's blocking pool has one thread, which the harness occupies with a gate, so the order of pearl's
/// file operations is owned by the check: gate, victim's queued operation, next call's operation.
#[derive(Clone, Debug, Serialize, Deserialize)]
pub struct OverlapCase {
    pub cfg: Cfg,
    /// acknowledged writes before the rounds (value lengths)
    pub pre: Vec<u32>,
    /// per round: (victim value length, next value length, hold the gate while dropping, extra polls of the victim when not gated)
    pub rounds: Vec<(u32, u32, bool, u8)>,
    pub reopen_lazy: bool,
}

pub fn overlap_strategy() -> BoxedStrategy<OverlapCase> {
    let vlen = prop_oneof![4 => 0u32..300, 2 => Just(5000u32), 2 => Just(100_000u32), 1 => Just(200_000u32)];
    let cfg = (cfg_strategy(&[8, 33], true), prop::bool::weighted(0.6)).prop_map(|(mut c, current_thread)| {
        c.allow_dup = true;
        c.blocking_threads = Some(1);
        if current_thread {
            c.rt_workers = 0;
        }
        c
    });
    (cfg, prop::collection::vec(vlen.clone(), 1..4), prop::collection::vec((vlen.clone(), vlen, prop::bool::weighted(0.7), 0u8..4), 1..5), any::<bool>())
        .prop_map(|(cfg, pre, rounds, reopen_lazy)| OverlapCase { cfg, pre, rounds, reopen_lazy })
        .boxed()
}

pub fn run_overlap(c: &OverlapCase, dir: &Path, _findings: &Findings) -> Result<CaseOut, Failure> {
    let rt = c.cfg.runtime();
    let group = pearl::verif::inflight_group_for_this_thread();
    let _ = std::fs::remove_dir_all(dir);
    let keylen = c.cfg.keylen;
    let res = rt.block_on(async {
        let fail = |clause: &str, detail: String, step: usize| -> Result<CaseOut, Failure> { Err(Failure { clause: clause.into(), detail, step, op: "overlap".into() }) };
        let s = match sut::open(&c.cfg, dir, false).await {
            Ok(s) => s,
            Err(e) => return fail("init/err", format!("{:#}", e), 0),
        };
        let mut labels: BTreeSet<String> = BTreeSet::new();
        let mut stats = crate::interp::Stats::default();
        // key index -> expected bytes of acknowledged writes; victims whose future was dropped: NotFound or exactly these bytes
        let mut acked: Vec<(u8, Vec<u8>)> = vec![];
        let mut dropped: Vec<(u8, Vec<u8>)> = vec![];
        let mut next_key = 0u8;
        let mut fresh = |vlen: u32| -> (u8, Vec<u8>) {
            let k = next_key;
            next_key += 1;
            (k, value_bytes(k as usize + 1, vlen, 0))
        };
        for vlen in &c.pre {
            let (k, val) = fresh(*vlen);
            if let Err(e) = s.write(&key_bytes(keylen, k), Bytes::from(val.clone()), 1, None).await {
                return fail("write/err", format!("{:#}", e), 0);
            }
            stats.writes += 1;
            acked.push((k, val));
        }
        for (r, (vlen_v, vlen_n, gated, extra)) in c.rounds.iter().enumerate() {
            stats.steps += 1;
            let (kv, val_v) = fresh(*vlen_v);
            let (kn, val_n) = fresh(*vlen_n);
            let kvb = key_bytes(keylen, kv);
            let knb = key_bytes(keylen, kn);
            let gate = if *gated {
                let (tx, rx) = std::sync::mpsc::channel::<()>();
                let h = tokio::task::spawn_blocking(move || {
                    let _ = rx.recv();
                });
                Some((tx, h))
            } else {
                None
            };
            // the victim: polled once (gated: its first file operation is now queued behind the gate), or a few more times
            let mut victim = Box::pin(s.write(&kvb, Bytes::from(val_v.clone()), 1, None));
            let mut done: Option<bool> = None;
            let polls = if *gated { 1 } else { 1 + *extra as usize };
            for i in 0..polls {
                match futures::poll!(victim.as_mut()) {
                    Poll::Ready(r) => {
                        done = Some(r.is_ok());
                        break;
                    }
                    Poll::Pending => {
                        if !*gated && i + 1 < polls {
                            tokio::time::sleep(Duration::from_micros(150)).await;
                        }
                    }
                }
            }
            match done {
                Some(true) => acked.push((kv, val_v.clone())),
                Some(false) => return fail("write/err", "victim write failed without any fault".into(), r),
                None => {
                    dropped.push((kv, val_v.clone()));
                    labels.insert("victim_dropped_pending".into());
                }
            }
            drop(victim);
            // the next call starts at once: no waiting for what the dropped future left in the pool
            let mut next = Box::pin(s.write(&knb, Bytes::from(val_n.clone()), 1, None));
            let early = futures::poll!(next.as_mut());
            let in_flight_at_overlap = group.load(Ordering::SeqCst);
            if let Some((tx, h)) = gate {
                if done.is_none() && in_flight_at_overlap >= 2 {
                    labels.insert("two_operations_queued_behind_gate".into());
                }
                let _ = tx.send(());
                let _ = h.await;
            }
            let res = match early {
                Poll::Ready(r) => r,
                Poll::Pending => next.await,
            };
            if let Err(e) = res {
                return fail("cancel/overlap/later-op-failed", format!("write after a dropped write failed: {:#}", e), r);
            }
            stats.writes += 2;
            acked.push((kn, val_n));
            let t0 = std::time::Instant::now();
            while group.load(Ordering::SeqCst) > 0 && t0.elapsed() < Duration::from_secs(30) {
                tokio::time::sleep(Duration::from_micros(300)).await;
            }
        }
        let _ = wait_quiet(s.as_ref(), false, crate::interp::max_wait()).await;
        // in the session: acknowledged data exact; a dropped write is absent or complete
        let judge = |stage: &str, k: u8, want: &Vec<u8>, got: anyhow::Result<sut::RR<Vec<u8>>>, may_be_absent: bool| -> Result<(), Failure> {
            match got {
                Ok(sut::RR::Found(b)) if &b == want => Ok(()),
                Ok(sut::RR::NotFound) if may_be_absent => Ok(()),
                other => Err(Failure { clause: format!("cancel/overlap/{}/{}", stage, if may_be_absent { "dropped-write-half-applied" } else { "acknowledged-data-lost" }), detail: format!("key {} ({} bytes written): got {}", k, want.len(), match other { Ok(sut::RR::Found(b)) => format!("Found({} bytes, differing)", b.len()), Ok(o) => o.class().to_string(), Err(e) => format!("Err({:#})", e) }), step: 0, op: "overlap".into() }),
            }
        };
        for (k, want) in &acked {
            stats.queries += 1;
            judge("session", *k, want, s.read(&key_bytes(keylen, *k)).await, false)?;
        }
        for (k, want) in &dropped {
            stats.queries += 1;
            judge("session", *k, want, s.read(&key_bytes(keylen, *k)).await, true)?;
        }
        if let Err(e) = s.close().await {
            return fail("close/err", format!("{:#}", e), 0);
        }
        // every blob file parses completely
        for (id, is_idx, p) in sut::list_files(dir) {
            if is_idx {
                let _ = std::fs::remove_file(&p);
                continue;
            }
            match blobfmt::parse_blob_file(&p, keylen) {
                Ok(parsed) if parsed.end == blobfmt::ParseEnd::Clean && parsed.records.iter().all(|r| r.data_crc_ok) => {}
                Ok(parsed) => return fail("cancel/overlap/blob-does-not-parse", format!("blob {}: {} records, then {:?}", id, parsed.records.len(), parsed.end), 0),
                Err(e) => return fail("harness/read", e.to_string(), 0),
            }
        }
        // restart without index files: the scan must accept every blob, all acknowledged data is served
        let s = match sut::open(&c.cfg, dir, c.reopen_lazy).await {
            Ok(s) => s,
            Err(e) => return fail("cancel/overlap/init-err", format!("{:#}", e), 0),
        };
        if s.corrupted_blobs_count() != 0 {
            return fail("cancel/overlap/blob-quarantined-at-restart", format!("corrupted_blobs_count = {}", s.corrupted_blobs_count()), 0);
        }
        for (k, want) in &acked {
            stats.queries += 1;
            judge("restart", *k, want, s.read(&key_bytes(keylen, *k)).await, false)?;
        }
        for (k, want) in &dropped {
            stats.queries += 1;
            judge("restart", *k, want, s.read(&key_bytes(keylen, *k)).await, true)?;
        }
        let _ = s.close().await;
        let nontrivial = labels.contains("two_operations_queued_behind_gate");
        Ok(CaseOut { nontrivial, labels, stats, known_hits: BTreeSet::new(), weight: 1 })
    });
    drop(rt);
    res
}

fn sample_overlap(c: &OverlapCase) -> Value {
    json!({"cfg": format!("keylen={} rt_workers={} blocking_threads={:?}", c.cfg.keylen, c.cfg.rt_workers, c.cfg.blocking_threads), "pre": c.pre, "rounds(victim_len,next_len,gated,extra_polls)": c.rounds})
}

// ------------------------------------------------------------------------------------------------
// phase "cancel-rotation": the victim is the write that fills an aged active blob
// ------------------------------------------------------------------------------------------------

/// The write that takes an active blob older than the 200 ms debounce to its record limit asks for the automatic rotation. In
/// the other phases no victim ever does (the limits are huge). Here the limit is 2-4 records, the blob is aged, and the filling
/// write (or a delete that fills it) is polled k times - the last poll optionally with j budget units - and dropped.
/// Oracle without model worlds: every record acknowledged before the victim reads back exactly, now, after a later write and
/// after a restart; the victim's key reads NotFound or exactly its value, the same in `read` and `read_all`; a later write
/// succeeds; after the restart nothing is quarantined except an empty / header-less blob file (the documented finding on
/// dropped blob creation), every blob parses.
#[derive(Clone, Debug, Serialize, Deserialize)]
pub struct RotCancelCase {
    pub cfg: Cfg,
    pub k: u16,
    pub budget: Option<u8>,
    pub vlen: u32,
    /// closed blobs that exist before
    pub pre_blobs: u8,
}

fn rot_cancel_cases(thorough: bool) -> Vec<RotCancelCase> {
    let mut v = vec![];
    for rt_workers in [0usize, 2] {
        for limit in if thorough { vec![2u64, 4] } else { vec![3u64] } {
            for vlen in if thorough { vec![10u32, 5000, 100_000] } else { vec![10u32, 100_000] } {
                for k in 0..(if thorough { 14u16 } else { 9 }) {
                    for budget in if thorough { vec![None, Some(0u8), Some(2), Some(5), Some(9)] } else { vec![None, Some(3u8)] } {
                        v.push(RotCancelCase { cfg: Cfg { keylen: 8, rt_workers, allow_dup: true, max_data_in_blob: limit, defer_ms: (2, 5), ..Cfg::default() }, k, budget, vlen, pre_blobs: (k % 2) as u8 });
                    }
                }
            }
        }
    }
    v
}

async fn rot_check(what: &str, s: &dyn crate::sut::Sut, keylen: usize, acked: &[(u8, Vec<u8>)], vval: &[u8], must_have_victim: bool) -> Result<bool, (String, String)> {
    for (k, val) in acked {
        match s.read(&key_bytes(keylen, *k)).await {
            Ok(crate::sut::RR::Found(d)) if d == *val => {}
            Ok(other) => return Err(("cancel/rotation/acknowledged-record-lost".to_string(), format!("{}: key {} was acknowledged before the victim, read returns {}", what, k, other.class()))),
            Err(e) => return Err(("cancel/rotation/read-err".to_string(), format!("{}: key {}: {:#}", what, k, e))),
        }
    }
    let r = s.read(&key_bytes(keylen, 100)).await;
    let all = s.read_all(&key_bytes(keylen, 100), true, crate::sut::LoadMode::Full).await;
    match (&r, &all) {
        (Ok(crate::sut::RR::Found(d)), Ok(l)) if d[..] == vval[..] && l.len() == 1 => Ok(true),
        (Ok(crate::sut::RR::NotFound), Ok(l)) if l.is_empty() && !must_have_victim => Ok(false),
        (r, l) => Err(("cancel/rotation/victim-half-visible".to_string(), format!("{}: read of the victim's key = {:?}, read_all has {:?} entries (must be both present with the exact value, or both absent{})", what, r.as_ref().map(|x| x.class()).map_err(|e| format!("{:#}", e)), l.as_ref().map(|x| x.len()).map_err(|e| format!("{:#}", e)), if must_have_victim { "; the call had returned Ok" } else { "" }))),
    }
}

pub fn run_rot_cancel(c: &RotCancelCase, dir: &Path, findings: &Findings) -> Result<CaseOut, Failure> {
    let fail = |clause: &str, detail: String| -> Result<CaseOut, Failure> { Err(Failure { clause: clause.into(), detail, step: 0, op: format!("cancel(filling write, k={}, budget={:?})", c.k, c.budget) }) };
    let rt = c.cfg.runtime();
    let group = pearl::verif::inflight_group_for_this_thread();
    let _ = std::fs::remove_dir_all(dir);
    let res = rt.block_on(async {
        let s = match sut::open(&c.cfg, dir, false).await {
            Ok(s) => s,
            Err(e) => return fail("init/err", format!("{:#}", e)),
        };
        let keylen = c.cfg.keylen;
        let limit = c.cfg.max_data_in_blob as usize;
        let mut acked: Vec<(u8, Vec<u8>)> = vec![];
        let mut n = 0u8;
        let mut put = |acked: &mut Vec<(u8, Vec<u8>)>| {
            n += 1;
            let val = vec![n; 20 + n as usize];
            acked.push((n, val.clone()));
            (key_bytes(keylen, n), Bytes::from(val), n as u64)
        };
        for _ in 0..c.pre_blobs {
            let (kb, val, ts) = put(&mut acked);
            if let Err(e) = s.write(&kb, val, ts, None).await {
                return fail("write/err", format!("{:#}", e));
            }
            let _ = s.try_close_active().await;
            let _ = s.try_create_active().await;
        }
        for _ in 0..limit.saturating_sub(1) {
            let (kb, val, ts) = put(&mut acked);
            if let Err(e) = s.write(&kb, val, ts, None).await {
                return fail("write/err", format!("{:#}", e));
            }
        }
        let _ = wait_quiet(s.as_ref(), true, crate::interp::max_wait()).await;
        tokio::time::sleep(Duration::from_millis(240)).await;
        // the victim: the write that fills the blob
        let vkey = 100u8;
        let vval = value_bytes(7, c.vlen, 0);
        let (completed, _used) = poll_kb(s.write(&key_bytes(keylen, vkey), Bytes::from(vval.clone()), 50, None), c.k as usize, c.budget).await;
        let t0 = std::time::Instant::now();
        while group.load(Ordering::SeqCst) > 0 && t0.elapsed() < Duration::from_secs(30) {
            tokio::time::sleep(Duration::from_micros(300)).await;
        }
        let _ = wait_quiet(s.as_ref(), true, crate::interp::max_wait()).await;
        let mut stats = crate::interp::Stats::default();
        let must = matches!(completed, Some(Ok(())));
        if let Some(Err(e)) = &completed {
            return fail("write/err", format!("the filling write failed: {:#}", e));
        }
        let seen_now = match rot_check("after the drop", s.as_ref(), keylen, &acked, &vval, must).await {
            Ok(b) => b,
            Err((cl, d)) => return fail(&cl, d),
        };
        stats.queries += acked.len() as u64 + 2;
        // later write
        let (kb, val, ts) = put(&mut acked);
        if let Err(e) = s.write(&kb, val, ts, None).await {
            return fail("cancel/rotation/later-write-err", format!("{:#}", e));
        }
        let _ = wait_quiet(s.as_ref(), true, crate::interp::max_wait()).await;
        if let Err((cl, d)) = rot_check("after a later write", s.as_ref(), keylen, &acked, &vval, seen_now).await {
            return fail(&cl, d);
        }
        if let Err(e) = s.close().await {
            return fail("close/err", format!("{:#}", e));
        }
        let s = match sut::open(&c.cfg, dir, false).await {
            Ok(s) => s,
            Err(e) => return fail("init/err", format!("after the restart: {:#}", e)),
        };
        let mut known = BTreeSet::new();
        if s.corrupted_blobs_count() != 0 {
            // only an empty / header-less file may have been set aside (open finding on dropped blob creation)
            let cdir = c.cfg.corrupted_path(dir);
            let big: Vec<_> = sut::list_files(&cdir).into_iter().filter(|x| !x.1 && x.2.metadata().map(|m| m.len()).unwrap_or(0) > crate::blobfmt::BLOB_HEADER_LEN as u64).collect();
            if !big.is_empty() || !findings.is_open(CREATE_PARTIAL) {
                return fail("cancel/rotation/quarantined", format!("corrupted_blobs_count = {} after the restart ({} of the files hold records)", s.corrupted_blobs_count(), big.len()));
            }
            known.insert(CREATE_PARTIAL.to_string());
        }
        if let Err((cl, d)) = rot_check("after the restart", s.as_ref(), keylen, &acked, &vval, seen_now).await {
            return fail(&cl, d);
        }
        for (_, is_idx, p) in sut::list_files(dir) {
            if !is_idx {
                if let Ok(parsed) = crate::blobfmt::parse_blob_file(&p, keylen) {
                    if parsed.end != crate::blobfmt::ParseEnd::Clean {
                        return fail("cancel/rotation/blob-does-not-parse", format!("{:?}: {:?}", p, parsed.end));
                    }
                }
            }
        }
        let _ = s.close().await;
        let mut labels = BTreeSet::new();
        labels.insert(if completed.is_none() { "filling_write_dropped_pending".to_string() } else { "filling_write_completed".to_string() });
        Ok(CaseOut { nontrivial: completed.is_none(), labels, stats, known_hits: known, weight: 1 })
    });
    drop(rt);
    res
}

fn sample_rot(c: &RotCancelCase) -> Value {
    json!({"rt_workers": c.cfg.rt_workers, "record_limit": c.cfg.max_data_in_blob, "victim": format!("write of {} bytes that fills an active blob older than 200 ms", c.vlen), "drop_after_resumptions": c.k, "budget_units_in_last_poll": c.budget, "closed_blobs_before": c.pre_blobs})
}

pub fn run(ctx: &RunCtx) -> PropResult {
    let mut report = Report::default();
    let findings = ctx.findings.clone();
    let runf = |c: &CancelCase, d: &Path| run_cancel(c, d, &findings);
    run_replays::<CancelCase, _>(ctx, "cancel", &ctx.verif_dir.join("replays").join("C14"), runf, &mut report);
    let runf = |c: &CancelCase, d: &Path| run_cancel(c, d, &findings);
    run_generated(ctx, "cancel", ctx.tier.pick(4000, 50_000), cancel_strategy, runf, &sample, &mut report);
    let runf = |c: &CancelCase, d: &Path| run_cancel(c, d, &findings);
    run_enumerated(ctx, "cancel-k", enumerated(ctx.tier == Tier::Thorough), runf, &sample, &mut report);
    let runf = |c: &CancelCase, d: &Path| run_cancel(c, d, &findings);
    run_enumerated(ctx, "cancel-budget", enumerated_budget(ctx.tier == Tier::Thorough), runf, &sample, &mut report);
    let runf = |c: &RotCancelCase, d: &Path| run_rot_cancel(c, d, &findings);
    run_enumerated(ctx, "cancel-rotation", rot_cancel_cases(ctx.tier == Tier::Thorough), runf, &sample_rot, &mut report);
    let runf = |c: &InitCase, d: &Path| run_init(c, d, &findings);
    run_replays::<InitCase, _>(ctx, "cancel-init", &ctx.verif_dir.join("replays").join("C14"), runf, &mut report);
    let runf = |c: &InitCase, d: &Path| run_init(c, d, &findings);
    run_generated(ctx, "cancel-init", ctx.tier.pick(1500, 15_000), init_strategy, runf, &sample_init, &mut report);
    let runf = |c: &OverlapCase, d: &Path| run_overlap(c, d, &findings);
    run_replays::<OverlapCase, _>(ctx, "cancel-overlap", &ctx.verif_dir.join("replays").join("C14"), runf, &mut report);
    let runf = |c: &OverlapCase, d: &Path| run_overlap(c, d, &findings);
    run_generated(ctx, "cancel-overlap", ctx.tier.pick(1200, 12_000), overlap_strategy, runf, &sample_overlap, &mut report);
    PropResult {
        report,
        level: "fault_enumeration",
        rule: "A generated history prefix (active blob fresh or reopened), then one victim call (write of 0-200 B / around 4 KiB / 5 000 B / 100 000 B with or without meta, delete with either only_if value over 0-3 closed blobs holding the key, try_close/create/restore_active_blob, fsyncdata, free_excess_resources, force_update_active_blob with each predicate) polled with a flag waker: it is re-polled only after its waker fired and dropped after k resumptions (k 0..13), on the current-thread runtime (every file operation is a suspension point) and the multi-thread runtime. The harness then waits for the blocking closures that future had submitted (per-thread H4 counter) and for the background queue. Oracle: all read/contains/read_all*/read_with answers for all keys equal the model with the victim applied, or the model with it not applied (one choice; a call that completed with Ok must be applied, with Err must not); generated later writes/deletes succeed and keep matching that world; a switch from not-applied to applied is accepted only at a restart; after the final restart (indexes kept or removed) corrupted_blobs_count is 0, every blob file parses completely with the harness parser and passes validate_blob. An enumerated phase runs every victim kind x every k x both runtimes x fresh/reopened active blob. The prefix may off-load filter buffers, free resources and sync, so that a cancelled call can meet off-loaded filters. A phase cancel-init closes the storage after a generated prefix (index files kept or removed), builds a new one with its own one-permit dump semaphore, polls init / init_lazy 1-16 times, drops it, requires the permit to be back once nothing is in flight (a lost permit blocks every later init and index dump on that disk), initialises the same object again and judges all data, later operations and a final restart against the model. A third phase (cancel-overlap) removes that wait: the runtime's blocking pool has ONE thread which the harness occupies with a gate, a write is polled once (its file operation is queued behind the gate) and dropped, the next write is started at once (its operation queues behind the victim's), then the gate opens; 1-4 rounds with value sizes on both sides of the in-place / background thresholds, both runtimes, also un-gated with 1-4 polls. Oracle: every acknowledged write reads back exactly, a dropped write reads NotFound or exactly its bytes, in the session and after a restart without index files; every blob file parses completely (harness parser, data checksums) and nothing is quarantined. Non-trivial = the future was dropped while pending after >=1 resumption (cancel phases); two file operations were queued behind the gate at the overlap (cancel-overlap). distinct = FNV hash of the serialized case.".into(),
        assumptions: {
            let mut a = common_assumptions();
            a.push("suspension points are the ones the runtime produces: on the multi-thread runtime small file operations run in place and cannot be interrupted".into());
            a
        },
    }
}

pub fn replay_other(phase: &str, case: &Value, dir: &Path, findings: &Findings) -> Option<Result<CaseOut, Failure>> {
    if phase == "cancel-init" {
        let runf = |c: &InitCase, d: &Path| run_init(c, d, findings);
        return serde_json::from_value::<InitCase>(case.clone()).ok().map(|c| guarded(&c, dir, &runf));
    }
    if phase == "cancel-rotation" {
        let runf = |c: &RotCancelCase, d: &Path| run_rot_cancel(c, d, findings);
        return serde_json::from_value::<RotCancelCase>(case.clone()).ok().map(|c| guarded(&c, dir, &runf));
    }
    if phase == "cancel-overlap" {
        let runf = |c: &OverlapCase, d: &Path| run_overlap(c, d, findings);
        return serde_json::from_value::<OverlapCase>(case.clone()).ok().map(|c| guarded(&c, dir, &runf));
    }
    if phase.starts_with("cancel") {
        let runf = |c: &CancelCase, d: &Path| run_cancel(c, d, findings);
        serde_json::from_value::<CancelCase>(case.clone()).ok().map(|c| guarded(&c, dir, &runf))
    } else {
        None
    }
}
