//! C10 Filters never give a false negative, in memory, on file, merged or off-loaded.
use super::history::*;
use super::{common_assumptions, PropResult};
use crate::interp::{Checks, Failure};
use crate::ops::GenParams;
use crate::runner::*;
use async_trait::async_trait;
use pearl::filter::{BloomDataProvider, BloomProvider, CombinedFilter, FilterTrait, HierarchicalFilters, RangeFilter};
use pearl::{ArrayKey, Bloom, BloomConfig, FilterResult};
use proptest::prelude::*;
use serde::{Deserialize, Serialize};
use serde_json::{json, Value};
use std::collections::BTreeSet;
use std::path::Path;

fn fail<T>(clause: &str, detail: String) -> Result<T, Failure> {
    Err(Failure { clause: clause.into(), detail, step: 0, op: String::new() })
}

// ------------------------------------------------------------------------------------------------
// phase "bloom": Bloom / RangeFilter / CombinedFilter units
// ------------------------------------------------------------------------------------------------

#[derive(Clone, Debug, Serialize, Deserialize)]
pub struct BloomCase {
    pub elements: usize,
    pub hashers: usize,
    pub max_bits: usize,
    pub fpr_millis: u32,
    /// keys added to filter A / filter B, and probes that are added to neither
    pub a: Vec<Vec<u8>>,
    pub b: Vec<Vec<u8>>,
    pub probes: Vec<Vec<u8>>,
    /// number of junk bytes in front of the serialized filter in the simulated file
    pub file_offset: u16,
    /// 4-byte keys for the range/combined filters
    pub ka: Vec<[u8; 4]>,
    pub kb: Vec<[u8; 4]>,
    pub kprobes: Vec<[u8; 4]>,
    pub combined_with_bloom: bool,
    /// filter B is built with another hasher count (same bit budget): a merge must be refused or stay free of false negatives
    #[serde(default)]
    pub b_hashers: Option<usize>,
    /// the serialized filter is additionally read back with ANOTHER stored config (elements, bit budget, rate in 1/1000;
    /// same hasher count) next to the same bits and bit count - what index files of earlier releases look like, whose
    /// incremental sizing produced bit counts today's formula does not give for the stored config
    #[serde(default)]
    pub legacy_cfg: Option<(usize, usize, u32)>,
}

struct Provider {
    bytes: Vec<u8>,
    off: usize,
}

#[async_trait]
impl BloomDataProvider for Provider {
    async fn read_byte(&self, index: u64) -> anyhow::Result<u8> {
        self.bytes.get(self.off + index as usize).copied().ok_or_else(|| anyhow::anyhow!("read past the end of the filter section: {}", index))
    }
}

/// A file that cannot be read (every probe of the filter section fails)
struct UnreadableProvider;

#[async_trait]
impl BloomDataProvider for UnreadableProvider {
    async fn read_byte(&self, index: u64) -> anyhow::Result<u8> {
        Err(anyhow::anyhow!("injected read failure at byte {}", index))
    }
}

fn key_strategy() -> BoxedStrategy<Vec<u8>> {
    prop_oneof![
        4 => prop::collection::vec(any::<u8>(), 0..12),
        2 => prop::collection::vec(0u8..3, 1..5),
        1 => prop::collection::vec(any::<u8>(), 12..300),
    ]
    .boxed()
}

fn k4_strategy() -> BoxedStrategy<[u8; 4]> {
    prop_oneof![3 => any::<[u8; 4]>(), 2 => (0u8..4, 0u8..4).prop_map(|(a, b)| [0, 0, a, b]), 1 => Just([255u8; 4]), 1 => Just([0u8; 4])].boxed()
}

pub fn bloom_strategy() -> BoxedStrategy<BloomCase> {
    let cfg = (
        prop_oneof![3 => 0usize..60, 1 => 60usize..3000],
        0usize..6,
        prop_oneof![2 => 0usize..130, 3 => 130usize..5000, 1 => Just(64usize), 1 => Just(8_388_608usize)],
        prop_oneof![Just(0u32), Just(1), Just(10), Just(500), Just(999), Just(1000)],
    );
    (
        cfg,
        prop::collection::vec(key_strategy(), 0..120),
        prop::collection::vec(key_strategy(), 0..40),
        prop::collection::vec(key_strategy(), 0..40),
        any::<u16>(),
        prop::collection::vec(k4_strategy(), 0..40),
        prop::collection::vec(k4_strategy(), 0..20),
        prop::collection::vec(k4_strategy(), 0..20),
        any::<bool>(),
        (prop_oneof![3 => Just(None), 2 => (0usize..6).prop_map(Some)], prop_oneof![1 => Just(None), 1 => (0usize..3000, 0usize..5000, prop_oneof![Just(0u32), Just(1), Just(10), Just(500), Just(1000)]).prop_map(Some)]),
    )
        .prop_map(|((elements, hashers, max_bits, fpr_millis), a, b, probes, file_offset, ka, kb, kprobes, combined_with_bloom, (b_hashers, legacy_cfg))| BloomCase { elements, hashers, max_bits, fpr_millis, a, b, probes, file_offset: file_offset % 700, ka, kb, kprobes, combined_with_bloom, b_hashers, legacy_cfg })
        .boxed()
}

fn cfg_of(c: &BloomCase) -> BloomConfig {
    BloomConfig { elements: c.elements, hashers_count: c.hashers, max_buf_bits_count: c.max_bits, buf_increase_step: 1, preferred_false_positive_rate: c.fpr_millis as f64 / 1000.0 }
}

fn mem(b: &Bloom, k: &[u8]) -> FilterResult {
    // None = "cannot tell" (zero-sized or off-loaded buffer) which callers treat as NeedAdditionalCheck
    b.contains_in_memory(k).unwrap_or(FilterResult::NeedAdditionalCheck)
}

/// Range and combined filters over 4-byte keys of key type `K` (the filters have to follow the key type's order)
fn range_combined<K>(c: &BloomCase, cfg: &BloomConfig, rt: &tokio::runtime::Runtime, provider: &Provider, tag: &str, queries: &mut u64) -> Result<(), Failure>
where
    for<'a> K: pearl::Key<'a> + 'static,
{
    // 5. range + combined filters over 4-byte keys
    let ra: RangeFilter<K> = RangeFilter::new();
    let rb: RangeFilter<K> = RangeFilter::new();
    for k in &c.ka {
        ra.add(&K::from(k.to_vec()));
    }
    for k in &c.kb {
        rb.add(&K::from(k.to_vec()));
    }
    for k in &c.ka {
        *queries += 1;
        if !ra.contains(&K::from(k.to_vec())) {
            return fail(&format!("{}range/false-negative", tag), format!("key {:?}", k));
        }
    }
    let raw_r = match ra.to_raw() {
        Ok(r) => r,
        Err(e) => return fail("range/to_raw-err", format!("{:#}", e)),
    };
    let ra2: RangeFilter<K> = match RangeFilter::from_raw(&raw_r) {
        Ok(r) => r,
        Err(e) => return fail("range/from_raw-err", format!("{:#}", e)),
    };
    for k in c.ka.iter().chain(c.kb.iter()).chain(c.kprobes.iter()) {
        *queries += 1;
        if ra2.contains(&K::from(k.to_vec())) != ra.contains(&K::from(k.to_vec())) {
            return fail(&format!("{}range/roundtrip-differs", tag), format!("key {:?}", k));
        }
    }
    let mk = |keys: &Vec<[u8; 4]>| -> CombinedFilter<K> {
        let f = CombinedFilter::new(if c.combined_with_bloom { Some(Bloom::new(cfg.clone())) } else { None }, RangeFilter::new());
        for k in keys {
            FilterTrait::add(&f, &K::from(k.to_vec()));
        }
        f
    };
    let ca = mk(&c.ka);
    let cb = mk(&c.kb);
    let mut cm = ca.clone();
    let merged = cm.checked_add_assign(&cb);
    for k in &c.ka {
        *queries += 2;
        if ca.contains_fast(&K::from(k.to_vec())) == FilterResult::NotContains {
            return fail(&format!("{}combined/false-negative", tag), format!("key {:?}", k));
        }
        if rt.block_on(FilterTrait::contains(&ca, provider, &K::from(k.to_vec()))) == FilterResult::NotContains {
            return fail(&format!("{}combined/false-negative-async", tag), format!("key {:?}", k));
        }
    }
    if merged {
        for k in c.ka.iter().chain(c.kb.iter()) {
            *queries += 1;
            if cm.contains_fast(&K::from(k.to_vec())) == FilterResult::NotContains {
                return fail(&format!("{}combined/merge-false-negative", tag), format!("key {:?}", k));
            }
        }
    }
    // clone is deep: adding to the clone must not be required for the original's keys
    let cc = ca.clone();
    for k in &c.kb {
        FilterTrait::add(&cc, &K::from(k.to_vec()));
    }
    for k in &c.ka {
        if cc.contains_fast(&K::from(k.to_vec())) == FilterResult::NotContains {
            return fail(&format!("{}combined/clone-false-negative", tag), format!("key {:?}", k));
        }
    }
    Ok(())
}

pub fn run_bloom(c: &BloomCase, _dir: &Path) -> Result<CaseOut, Failure> {
    let rt = tokio::runtime::Builder::new_current_thread().build().expect("rt");
    let mut labels = BTreeSet::new();
    let mut queries = 0u64;
    let cfg = cfg_of(c);
    let a = Bloom::new(cfg.clone());
    let b = match c.b_hashers {
        Some(h) => Bloom::new(BloomConfig { hashers_count: h, ..cfg.clone() }),
        None => Bloom::new(cfg.clone()),
    };
    for k in &c.a {
        if let Err(e) = a.add(k) {
            return fail("bloom/add-err", format!("{:#}", e));
        }
    }
    for k in &c.b {
        let _ = b.add(k);
    }
    let all: Vec<&Vec<u8>> = c.a.iter().chain(c.b.iter()).chain(c.probes.iter()).collect();
    // 1. in memory
    for k in &c.a {
        queries += 1;
        if mem(&a, k) == FilterResult::NotContains {
            return fail("bloom/in-memory-false-negative", format!("key {:?} was added", k));
        }
    }
    // 2. serialization round trip: identical answers for every probe
    let raw = match a.to_raw() {
        Ok(r) => r,
        Err(e) => return fail("bloom/to_raw-err", format!("{:#}", e)),
    };
    let a2 = match Bloom::from_raw(&raw) {
        Ok(x) => x,
        Err(e) => return fail("bloom/from_raw-err", format!("{:#}", e)),
    };
    for k in &all {
        queries += 1;
        if mem(&a2, k) != mem(&a, k) {
            return fail("bloom/roundtrip-differs", format!("key {:?}: {:?} after from_raw vs {:?}", k, mem(&a2, k), mem(&a, k)));
        }
    }
    // 3. probing the serialized bytes through a data provider, with the buffer in memory and off-loaded
    let mut bytes = vec![0xA5u8; c.file_offset as usize];
    bytes.extend_from_slice(&raw);
    let provider = Provider { bytes, off: c.file_offset as usize };
    let mut off = a2.clone();
    let freed = off.offload_from_memory();
    if !off.is_offloaded() {
        return fail("bloom/offload", "is_offloaded() false after offload_from_memory".into());
    }
    if freed > 0 {
        labels.insert("offloaded".to_string());
    }
    for k in &all {
        for f in [&a2, &off] {
            queries += 1;
            let got = match rt.block_on(f.contains_in_file(&provider, k)) {
                Ok(g) => g,
                Err(e) => return fail("bloom/in-file-err", format!("key {:?}: {:#}", k, e)),
            };
            if got != mem(&a, k) {
                let stored = c.a.contains(k);
                let clause = if stored && got == FilterResult::NotContains { "bloom/in-file-false-negative" } else { "bloom/in-file-differs" };
                return fail(clause, format!("key {:?} (added: {}): in file {:?}, in memory {:?}", k, stored, got, mem(&a, k)));
            }
        }
        if off.contains_in_memory(k).is_some() {
            return fail("bloom/offload", "off-loaded filter still answers from memory".into());
        }
    }
    // 3a. the off-loaded filter over a file that cannot be read: the filter cannot tell, so it must not deny
    for k in &c.a {
        queries += 1;
        let got: FilterResult = rt.block_on(FilterTrait::<Vec<u8>>::contains(&off, &UnreadableProvider, k));
        if got == FilterResult::NotContains {
            return fail("bloom/denies-when-file-unreadable", format!("key {:?} was added; the buffer is off-loaded and every read of the file fails - FilterTrait::contains answered NotContains", k));
        }
    }
    // 3b. the same bits next to another stored config (an index file of an earlier release): answers must not change
    if let (Some((el, mb, fpr)), true) = (c.legacy_cfg, raw.len() >= 40) {
        let mut raw_l = raw.clone();
        // bincode layout of the config: elements, hashers_count, max_buf_bits_count, buf_increase_step (u64 each), rate (f64)
        raw_l[0..8].copy_from_slice(&(el as u64).to_le_bytes());
        raw_l[16..24].copy_from_slice(&(mb as u64).to_le_bytes());
        raw_l[24..32].copy_from_slice(&8196u64.to_le_bytes());
        raw_l[32..40].copy_from_slice(&(fpr as f64 / 1000.0).to_le_bytes());
        let a3 = match Bloom::from_raw(&raw_l) {
            Ok(x) => x,
            Err(e) => return fail("bloom/legacy-from_raw-err", format!("{:#}", e)),
        };
        labels.insert("legacy_config_next_to_bits".to_string());
        let mut bytes = vec![0x5Au8; c.file_offset as usize];
        bytes.extend_from_slice(&raw_l);
        let provider_l = Provider { bytes, off: c.file_offset as usize };
        let mut off3 = a3.clone();
        off3.offload_from_memory();
        for k in &all {
            queries += 1;
            if mem(&a3, k) != mem(&a, k) {
                return fail("bloom/legacy-roundtrip-differs", format!("key {:?}: {:?} after from_raw with another stored config vs {:?}", k, mem(&a3, k), mem(&a, k)));
            }
            for f in [&a3, &off3] {
                queries += 1;
                let got = match rt.block_on(f.contains_in_file(&provider_l, k)) {
                    Ok(g) => g,
                    Err(e) => return fail("bloom/legacy-in-file-err", format!("key {:?}: {:#}", k, e)),
                };
                if got != mem(&a, k) {
                    let stored = c.a.contains(k);
                    let clause = if stored && got == FilterResult::NotContains { "bloom/legacy-in-file-false-negative" } else { "bloom/legacy-in-file-differs" };
                    return fail(clause, format!("key {:?} (added: {}): in file {:?}, in memory {:?}", k, stored, got, mem(&a, k)));
                }
            }
        }
    }
    // 4. merge
    let mut m = a.clone();
    if m.checked_add_assign(&b) {
        labels.insert("merged".to_string());
        if c.b_hashers.map_or(false, |h| h != c.hashers) {
            labels.insert("merged_across_hasher_counts".to_string());
        }
        for k in c.a.iter().chain(c.b.iter()) {
            queries += 1;
            if mem(&m, k) == FilterResult::NotContains {
                return fail("bloom/merge-false-negative", format!("key {:?} was added to one of the merged filters", k));
            }
        }
    }
    // a filter merged with an off-loaded one must refuse (it cannot know the bits)
    let mut m2 = a.clone();
    if c.b_hashers.map_or(false, |h| h != c.hashers) {
        labels.insert("merge_operand_with_other_hasher_count".to_string());
    }
    if m2.checked_add_assign(&off) {
        return fail("bloom/merge-offloaded-accepted", "checked_add_assign returned true for an off-loaded operand".into());
    }
    if c.max_bits % 64 != 0 {
        labels.insert("bits_not_multiple_of_64".to_string());
    }

    // 5. range + combined filters over 4-byte keys: the byte-ordered key type and one with another order
    range_combined::<ArrayKey<4>>(c, &cfg, &rt, &provider, "", &mut queries)?;
    range_combined::<super::c09::RevKey<4>>(c, &cfg, &rt, &provider, "custom-order/", &mut queries)?;
    let nontrivial = !c.a.is_empty() && c.hashers > 0 && (c.max_bits % 64 != 0 || freed > 0);
    let mut stats = crate::interp::Stats::default();
    stats.queries = queries;
    Ok(CaseOut { nontrivial, labels, stats, known_hits: Default::default(), weight: 1 })
}

// ------------------------------------------------------------------------------------------------
// phase "hier": HierarchicalFilters over mock blobs
// ------------------------------------------------------------------------------------------------

type HK = ArrayKey<4>;

struct MockBlob {
    id: usize,
    keys: Vec<[u8; 4]>,
    filter: CombinedFilter<HK>,
    /// a child that cannot hand out its filter synchronously (forces the async path)
    slow: bool,
    /// a child that cannot hand out a filter at all (what a whole Storage does while it has no closed blob): it still answers
    /// for its own keys, but a group it joins can no longer know what it holds
    no_filter: bool,
}

#[async_trait]
impl BloomProvider<HK> for MockBlob {
    type Filter = CombinedFilter<HK>;
    async fn check_filter(&self, item: &HK) -> FilterResult {
        self.filter.contains_fast(item)
    }
    fn check_filter_fast(&self, item: &HK) -> FilterResult {
        self.filter.contains_fast(item)
    }
    async fn offload_buffer(&mut self, _needed: usize, _level: usize) -> usize {
        self.filter.offload_filter()
    }
    async fn get_filter(&self) -> Option<Self::Filter> {
        if self.no_filter {
            None
        } else {
            Some(self.filter.clone())
        }
    }
    fn get_filter_fast(&self) -> Option<&Self::Filter> {
        if self.slow || self.no_filter {
            None
        } else {
            Some(&self.filter)
        }
    }
    async fn filter_memory_allocated(&self) -> usize {
        self.filter.memory_allocated()
    }
}

#[derive(Clone, Debug, Serialize, Deserialize)]
pub enum HOp {
    Push {
        keys: Vec<[u8; 4]>,
        with_bloom: bool,
        slow: bool,
        #[serde(default)]
        no_filter: bool,
    },
    Pop,
    Remove { sel: u16 },
    Offload { level: u8, needed_small: bool },
    Reload,
    /// add a key to an existing child and to its parents (what a blob does for a key it already holds)
    AddToChild { sel: u16, key: [u8; 4] },
}

#[derive(Clone, Debug, Serialize, Deserialize)]
pub struct HierCase {
    pub group: usize,
    pub level: usize,
    pub bloom_bits: usize,
    pub ops: Vec<HOp>,
}

pub fn hier_strategy() -> BoxedStrategy<HierCase> {
    let op = prop_oneof![
        10 => (prop::collection::vec(k4_strategy(), 0..6), prop::bool::weighted(0.7), prop::bool::weighted(0.15), prop::bool::weighted(0.12)).prop_map(|(keys, with_bloom, slow, no_filter)| HOp::Push { keys, with_bloom, slow, no_filter }),
        3 => Just(HOp::Pop),
        2 => any::<u16>().prop_map(|sel| HOp::Remove { sel }),
        3 => (0u8..4, any::<bool>()).prop_map(|(level, needed_small)| HOp::Offload { level, needed_small }),
        1 => Just(HOp::Reload),
        2 => (any::<u16>(), k4_strategy()).prop_map(|(sel, key)| HOp::AddToChild { sel, key }),
    ];
    (2usize..10, 0usize..3, prop_oneof![Just(100usize), Just(1237), Just(64), Just(0)], prop::collection::vec(op, 0..60)).prop_map(|(group, level, bloom_bits, ops)| HierCase { group, level, bloom_bits, ops }).boxed()
}

pub fn run_hier(c: &HierCase, _dir: &Path) -> Result<CaseOut, Failure> {
    let rt = tokio::runtime::Builder::new_current_thread().build().expect("rt");
    let mut labels = BTreeSet::new();
    let mut queries = 0u64;
    let cfg = BloomConfig { elements: 20, hashers_count: 2, max_buf_bits_count: c.bloom_bits, buf_increase_step: 1, preferred_false_positive_rate: 0.01 };
    let mut h: HierarchicalFilters<HK, CombinedFilter<HK>, MockBlob> = HierarchicalFilters::new(c.group, c.level);
    // shadow: child id -> keys, for the childs that are present
    let mut live: std::collections::BTreeMap<usize, Vec<[u8; 4]>> = Default::default();
    let mut next_mock = 0usize;
    let mut mock_of: std::collections::BTreeMap<usize, usize> = Default::default();
    let mut max_live = 0usize;
    for (step, op) in c.ops.iter().enumerate() {
        match op {
            HOp::Push { keys, with_bloom, slow, no_filter } => {
                let f = CombinedFilter::new(if *with_bloom { Some(Bloom::new(cfg.clone())) } else { None }, RangeFilter::new());
                for k in keys {
                    FilterTrait::add(&f, &HK::from(*k));
                }
                let id = rt.block_on(h.push(MockBlob { id: next_mock, keys: keys.clone(), filter: f, slow: *slow, no_filter: *no_filter }));
                mock_of.insert(id, next_mock);
                next_mock += 1;
                live.insert(id, keys.clone());
            }
            HOp::Pop => {
                let exp = live.keys().next_back().copied();
                let got = h.pop();
                match (exp, got) {
                    (None, None) => {}
                    (Some(e), Some(b)) => {
                        if b.id != mock_of[&e] {
                            return Err(Failure { clause: "hier/pop-wrong-child".into(), detail: format!("popped mock {} expected child id {}", b.id, e), step, op: format!("{:?}", op) });
                        }
                        live.remove(&e);
                        labels.insert("popped".to_string());
                    }
                    (e, g) => return Err(Failure { clause: "hier/pop-mismatch".into(), detail: format!("expected {:?} got some={}", e, g.is_some()), step, op: format!("{:?}", op) }),
                }
            }
            HOp::Remove { sel } => {
                if !live.is_empty() {
                    let ids: Vec<usize> = live.keys().copied().collect();
                    let id = ids[crate::damage::pick(*sel, ids.len())];
                    if h.remove(id).is_none() {
                        return Err(Failure { clause: "hier/remove-none".into(), detail: format!("child {} is present but remove returned None", id), step, op: format!("{:?}", op) });
                    }
                    live.remove(&id);
                    labels.insert("removed".to_string());
                }
            }
            HOp::Offload { level, needed_small } => {
                let freed = rt.block_on(h.offload_buffer(if *needed_small { 16 } else { usize::MAX }, *level as usize));
                if freed > 0 {
                    labels.insert("offloaded".to_string());
                }
            }
            HOp::Reload => {
                rt.block_on(h.reload());
                // reload re-pushes the present childs in order: ids are compacted
                let vals: Vec<Vec<[u8; 4]>> = live.values().cloned().collect();
                let mocks: Vec<usize> = live.keys().map(|k| mock_of[k]).collect();
                live = vals.into_iter().enumerate().collect();
                mock_of = mocks.into_iter().enumerate().collect();
                labels.insert("reloaded".to_string());
            }
            HOp::AddToChild { sel, key } => {
                if !live.is_empty() {
                    let ids: Vec<usize> = live.keys().copied().collect();
                    let id = ids[crate::damage::pick(*sel, ids.len())];
                    if let Some(leaf) = h.get_child(id) {
                        FilterTrait::add(&leaf.data.filter, &HK::from(*key));
                    }
                    h.add_to_parents(id, &HK::from(*key));
                    live.get_mut(&id).unwrap().push(*key);
                }
            }
        }
        max_live = max_live.max(live.len());
        // oracle: every key of every present child is reachable
        for (id, keys) in &live {
            for k in keys {
                let key = HK::from(*k);
                queries += 4;
                if !h.iter_possible_childs(&key).any(|(cid, _)| cid == *id) {
                    return Err(Failure { clause: "hier/iter-false-negative".into(), detail: format!("child {} holds {:?} but iter_possible_childs skips it", id, k), step, op: format!("{:?}", op) });
                }
                if !h.iter_possible_childs_rev(&key).any(|(cid, _)| cid == *id) {
                    return Err(Failure { clause: "hier/iter-rev-false-negative".into(), detail: format!("child {} holds {:?} but iter_possible_childs_rev skips it", id, k), step, op: format!("{:?}", op) });
                }
                if h.check_filter_fast(&key) == FilterResult::NotContains {
                    return Err(Failure { clause: "hier/check_filter_fast-false-negative".into(), detail: format!("key {:?} of child {}", k, id), step, op: format!("{:?}", op) });
                }
                if rt.block_on(h.check_filter(&key)) == FilterResult::NotContains {
                    return Err(Failure { clause: "hier/check_filter-false-negative".into(), detail: format!("key {:?} of child {}", k, id), step, op: format!("{:?}", op) });
                }
                if let Some(root) = h.get_filter_fast() {
                    if root.contains_fast(&key) == FilterResult::NotContains {
                        return Err(Failure { clause: "hier/root-filter-false-negative".into(), detail: format!("key {:?} of child {}", k, id), step, op: format!("{:?}", op) });
                    }
                }
            }
        }
        // order of iteration: ascending ids forward, descending in reverse
        if let Some((_, keys)) = live.iter().next() {
            if let Some(k) = keys.first() {
                let key = HK::from(*k);
                let fwd: Vec<usize> = h.iter_possible_childs(&key).map(|x| x.0).collect();
                let mut sorted = fwd.clone();
                sorted.sort();
                let rev: Vec<usize> = h.iter_possible_childs_rev(&key).map(|x| x.0).collect();
                let mut rsorted = rev.clone();
                rsorted.sort_by(|a, b| b.cmp(a));
                if fwd != sorted || rev != rsorted {
                    return Err(Failure { clause: "hier/iter-order".into(), detail: format!("forward {:?} reverse {:?}", fwd, rev), step, op: format!("{:?}", op) });
                }
            }
        }
    }
    let nontrivial = max_live > c.group && (labels.contains("popped") || labels.contains("removed") || labels.contains("offloaded"));
    let mut stats = crate::interp::Stats::default();
    stats.queries = queries;
    stats.steps = c.ops.len() as u64;
    Ok(CaseOut { nontrivial, labels, stats, known_hits: Default::default(), weight: 1 })
}

// ------------------------------------------------------------------------------------------------
// phase "history": storage level
// ------------------------------------------------------------------------------------------------

fn nt(l: &BTreeSet<String>) -> bool {
    has(l, "ge2_closed") && (has(l, "offloaded") || has(l, "restore") || has(l, "delete_in_closed"))
}

const BLOOM_KEYLENS: &[usize] = &[1, 4, 8, 33];

pub fn profile() -> Profile {
    Profile {
        id: "C10",
        phase: "history",
        checks: Checks { read: true, filters: true, ..Default::default() },
        gen: GenParams { nkeys: 8, ts_span: 4, metas: 1, max_ops: 60, w_write: 36, w_delete: 12, w_switch: 16, w_wait: 8, w_reopen: 4, w_lifecycle: 12, w_maint: 12, ..Default::default() },
        keylens: BLOOM_KEYLENS,
        short_defer: true,
        nt,
    }
}

pub fn run(ctx: &RunCtx) -> PropResult {
    let mut report = Report::default();
    let sample_b = |c: &BloomCase| json!({"elements": c.elements, "hashers": c.hashers, "max_bits": c.max_bits, "fpr_millis": c.fpr_millis, "added": c.a.len(), "other": c.b.len(), "probes": c.probes.len(), "file_offset": c.file_offset, "range_keys": c.ka.len()});
    run_replays::<BloomCase, _>(ctx, "bloom", &ctx.verif_dir.join("replays").join("C10"), run_bloom, &mut report);
    run_generated(ctx, "bloom", ctx.tier.pick(60_000, 400_000), bloom_strategy, run_bloom, &sample_b, &mut report);
    let sample_h = |c: &HierCase| -> Value { json!({"group": c.group, "level": c.level, "bloom_bits": c.bloom_bits, "ops": c.ops.iter().map(|o| match o { HOp::Push { keys, with_bloom, slow, no_filter } => format!("push({} keys,bloom={},slow={},hands_out_no_filter={})", keys.len(), with_bloom, slow, no_filter), other => format!("{:?}", other) }).collect::<Vec<_>>() }) };
    run_replays::<HierCase, _>(ctx, "hier", &ctx.verif_dir.join("replays").join("C10"), run_hier, &mut report);
    run_generated(ctx, "hier", ctx.tier.pick(30_000, 200_000), hier_strategy, run_hier, &sample_h, &mut report);
    let p = profile();
    run_profile(ctx, &p, ctx.tier.pick(3000, 40_000), &mut report);
    PropResult {
        report,
        level: "exploration",
        rule: "Three generated domains. (bloom) bloom configs with 0-5 hashers, bit budgets 0..5000 (mostly not multiples of 64), zero sizes, key sets of 0-120 byte strings of length 0-300: every added key is never denied in memory, after to_raw/from_raw, through contains_in_file over the serialized bytes at a generated offset with the buffer in memory and off-loaded (in-file answer must EQUAL the in-memory answer for every probe, added or not), after merge (the second filter also built with another hasher count over the same bit budget: the merge must be refused or stay free of false negatives); range and combined filters likewise incl. clone, round trip and merge, for the byte-ordered key type and for a key type with another order (bytes compared from the last). (hier) HierarchicalFilters<ArrayKey<4>, CombinedFilter, MockBlob> with group size 2..9 under push/pop/remove/offload(level)/reload/add_to_parents scripts: after every op every key of every present child is reachable through iter_possible_childs[_rev], check_filter[_fast] and the root filter. (history) storage histories with bloom on/off, offload at levels 0..2, deletes into closed blobs, restore + writes + close, restarts: check_filters / BloomProvider::check_filter never deny a stored key and read still finds every model-present key. False positives are never flagged. Non-trivial: bloom = keys added with >=1 hasher and (bit budget not multiple of 64 or buffer off-loaded); hier = more childs than the group size and a pop/remove/offload happened; history = >=2 closed blobs and an offload, restore or delete-in-closed. distinct = FNV hash of the serialized case.".into(),
        assumptions: common_assumptions(),
    }
}

pub fn replay_other(phase: &str, case: &Value, dir: &Path) -> Option<Result<CaseOut, Failure>> {
    match phase {
        "bloom" => serde_json::from_value::<BloomCase>(case.clone()).ok().map(|c| guarded(&c, dir, &run_bloom)),
        "hier" => serde_json::from_value::<HierCase>(case.clone()).ok().map(|c| guarded(&c, dir, &run_hier)),
        _ => None,
    }
}
