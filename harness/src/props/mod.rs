pub mod history;
pub mod c01;
pub mod c02;
pub mod c03;
pub mod c04;
pub mod c05;
pub mod c06;
pub mod c07;
pub mod c08;
pub mod c09;
pub mod c10;
pub mod c11;
pub mod c12;
pub mod c13;
pub mod c14;
pub mod c15;
pub mod c16;
pub mod c17;

use crate::runner::{EvidenceMeta, Report, RunCtx};

pub struct PropResult {
    pub report: Report,
    pub level: &'static str,
    pub rule: String,
    pub assumptions: Vec<String>,
}

impl PropResult {
    pub fn meta(&self) -> EvidenceMeta<'_> {
        EvidenceMeta { level: self.level, rule: &self.rule, assumptions: self.assumptions.clone() }
    }
}

pub fn common_assumptions() -> Vec<String> {
    vec![
        "pearl is built from /repo with cargo feature pearl_verif (hooks only add observation points)".into(),
        "release-like profile: opt-level 2, no debug assertions, overflow checks ON (a wrapped subtraction in pearl is reported as a panic)".into(),
        "scratch directories on tmpfs (/dev/shm); file-system semantics assumed POSIX".into(),
    ]
}

pub fn run(ctx: &RunCtx) -> Option<PropResult> {
    match ctx.prop.as_str() {
        "C01" => Some(c01::run(ctx)),
        "C02" => Some(c02::run(ctx)),
        "C03" => Some(c03::run(ctx)),
        "C04" => Some(c04::run(ctx)),
        "C05" => Some(c05::run(ctx)),
        "C06" => Some(c06::run(ctx)),
        "C07" => Some(c07::run(ctx)),
        "C08" => Some(c08::run(ctx)),
        "C09" => Some(c09::run(ctx)),
        "C10" => Some(c10::run(ctx)),
        "C11" => Some(c11::run(ctx)),
        "C12" => Some(c12::run(ctx)),
        "C13" => Some(c13::run(ctx)),
        "C14" => Some(c14::run(ctx)),
        "C15" => Some(c15::run(ctx)),
        "C16" => Some(c16::run(ctx)),
        "C17" => Some(c17::run(ctx)),
        _ => None,
    }
}

/// History profile for (property, phase), if that phase is a history phase
pub fn history_profile(prop: &str, phase: &str) -> Option<history::Profile> {
    let mut p = match prop {
        "C01" => c01::profile(),
        "C02" => c02::profile(),
        "C03" => c03::profile(),
        "C04" => c04::profile(),
        "C05" => c05::profile(),
        "C10" => c10::profile(),
        "C15" => c15::profile(),
        _ => return None,
    };
    if !phase.starts_with("history") {
        return None;
    }
    p.phase = "history";
    Some(p)
}

/// Re-judges one replay file with the oracle of its property; exit code 0 (passes) / 1 (fails)
pub fn replay(ctx: &RunCtx, path: &std::path::Path) -> i32 {
    let v: serde_json::Value = match std::fs::read(path).ok().and_then(|b| serde_json::from_slice(&b).ok()) {
        Some(v) => v,
        None => {
            eprintln!("cannot read replay file {}", path.display());
            return 2;
        }
    };
    let phase = v["phase"].as_str().unwrap_or("history").to_string();
    let dir = ctx.scratch.join("replay");
    let res: Option<Result<crate::runner::CaseOut, crate::interp::Failure>> = if let Some(p) = history_profile(&ctx.prop, &phase) {
        match serde_json::from_value::<crate::ops::Case>(v["case"].clone()) {
            Ok(case) => {
                let f = |c: &crate::ops::Case, d: &std::path::Path| history::run_history(c, d, &p, &ctx.findings);
                Some(crate::runner::guarded(&case, &dir, &f))
            }
            Err(e) => {
                eprintln!("replay case does not decode: {}", e);
                None
            }
        }
    } else {
        replay_other(ctx, &phase, &v["case"], &dir)
    };
    match res {
        None => {
            eprintln!("no replay handler for property {} phase {}", ctx.prop, phase);
            2
        }
        Some(Ok(o)) => {
            for k in &o.known_hits {
                println!("KNOWN-FINDING: property={} {}: {}", ctx.prop, k, ctx.findings.describe(k));
            }
            println!("[{}] replay {} passes", ctx.prop, path.display());
            0
        }
        Some(Err(f)) => {
            eprintln!("[{}] replay fails: {} -- {} (step {}, op {})", ctx.prop, f.clause, f.detail, f.step, f.op);
            println!("VIOLATION property={} replay={}", ctx.prop, path.display());
            1
        }
    }
}

fn replay_other(ctx: &RunCtx, phase: &str, case: &serde_json::Value, dir: &std::path::Path) -> Option<Result<crate::runner::CaseOut, crate::interp::Failure>> {
    match ctx.prop.as_str() {
        "C05" => c05::replay_other(phase, case, dir, &ctx.findings),
        "C06" => c06::replay_other(phase, case, dir, &ctx.findings),
        "C07" => c07::replay_other(phase, case, dir, &ctx.findings),
        "C08" => c08::replay_other(phase, case, dir, &ctx.findings),
        "C09" => c09::replay_other(phase, case, dir),
        "C10" => c10::replay_other(phase, case, dir),
        "C11" => c11::replay_other(phase, case, dir, &ctx.findings),
        "C12" => c12::replay_other(phase, case, dir, &ctx.findings),
        "C13" => c13::replay_other(phase, case, dir, &ctx.findings),
        "C14" => c14::replay_other(phase, case, dir, &ctx.findings),
        "C15" => c15::replay_other(phase, case, dir, &ctx.findings),
        "C16" => c16::replay_other(phase, case, dir, &ctx.findings),
        "C17" => c17::replay_other(phase, case, dir, &ctx.verif_dir, &ctx.findings),
        _ => None,
    }
}
