//! C03 Restart equivalence: index files are a disposable cache of the blobs.
use super::history::*;
use super::{common_assumptions, PropResult};
use crate::interp::Checks;
use crate::ops::*;
use crate::sut::{Bloom, Cfg};
use crate::runner::*;
use crate::sut::KEY_LENS;
use std::collections::BTreeSet;

fn nt(l: &BTreeSet<String>) -> bool {
    has(l, "reopen") && (has(l, "index_removed") || has(l, "index_truncated") || has(l, "index_written_cleared") || has(l, "index_header_zeroed") || has(l, "index_bytes_appended") || has(l, "stale_index"))
}

pub fn profile() -> Profile {
    Profile {
        id: "C03",
        phase: "history",
        checks: Checks { read: true, versions: true, counts: true, ids: true, ..Default::default() },
        gen: GenParams { nkeys: 5, ts_span: 5, metas: 3, max_ops: 50, w_write: 40, w_delete: 16, w_switch: 12, w_wait: 10, w_reopen: 14, w_lifecycle: 4, w_maint: 6, reopen_damage: true, ..Default::default() },
        keylens: KEY_LENS,
        short_defer: true,
        nt,
    }
}

/// History that leaves blob 0 closed with a dumped index of a few KiB, then reopens with t.0.index cut to `len`
fn sweep_case(keylen: usize, bloom: Bloom, lazy: bool, len: Option<u32>) -> Case {
    let mut ops = vec![];
    // 5 keys x up to 9 versions with ties, one marker in the middle
    for i in 0..45u32 {
        let key = (i % 5) as u8;
        if i == 22 {
            ops.push(Op::Delete { key: 1, ts: 2, meta: 0, only_if: false });
        }
        ops.push(Op::Write { key, ts: (i % 4) as u64, meta: (i % 3) as u8, vlen: 4 + (i % 7), fill: 0 });
    }
    ops.push(Op::Switch);
    for i in 0..4u32 {
        ops.push(Op::Write { key: (i % 5) as u8, ts: 1, meta: 0, vlen: 5, fill: 0 });
    }
    ops.push(Op::WaitIdle);
    if let Some(len) = len {
        ops.push(Op::Reopen { lazy, remove_all_idx: false, damage: vec![Damage { sel: 0, kind: DamageKind::TruncateTo { len } }] });
    }
    Case { cfg: Cfg { keylen, bloom, allow_dup: true, ..Cfg::default() }, ops }
}

/// Many blobs (ids with one, two and three digits): every blob holds a record of one shared key with the same timestamp
/// (the most recent blob must win the tie after any restart) plus a record of its own key
fn many_blobs_case(nblobs: usize, lazy: bool, remove_all_idx: bool, keylen: usize) -> Case {
    let mut ops = vec![];
    for b in 0..nblobs {
        ops.push(Op::Write { key: 0, ts: 2, meta: 0, vlen: 3 + (b % 50) as u32, fill: 0 });
        ops.push(Op::Write { key: 1 + (b % 4) as u8, ts: 1, meta: 0, vlen: 1 + (b % 7) as u32, fill: 0 });
        if b + 1 < nblobs {
            ops.push(Op::Switch);
        }
    }
    ops.push(Op::WaitIdle);
    ops.push(Op::Reopen { lazy, remove_all_idx, damage: vec![] });
    if lazy {
        ops.push(Op::Restore);
    }
    ops.push(Op::Write { key: 2, ts: 1, meta: 0, vlen: 9, fill: 0 });
    ops.push(Op::Write { key: 0, ts: 2, meta: 0, vlen: 99, fill: 0 });
    ops.push(Op::Switch);
    ops.push(Op::Write { key: 0, ts: 2, meta: 0, vlen: 100, fill: 0 });
    ops.push(Op::Reopen { lazy: !lazy, remove_all_idx: false, damage: vec![] });
    Case { cfg: Cfg { keylen, bloom: Bloom::None, allow_dup: true, defer_ms: (2, 5), group: 3, ..Cfg::default() }, ops }
}

/// Length of t.0.index produced by `sweep_case`
fn sweep_index_len(ctx: &RunCtx, keylen: usize, bloom: &Bloom) -> u64 {
    let dir = ctx.scratch.join(format!("sweep-probe-{}", keylen));
    let case = sweep_case(keylen, bloom.clone(), false, None);
    let rt = case.cfg.runtime();
    let findings = ctx.findings.clone();
    let len = rt.block_on(async {
        let mut ex = crate::interp::Exec::new(case.cfg.clone(), dir.clone(), Checks::default(), 5, 1, &findings);
        if ex.start().await.is_err() {
            return 0;
        }
        for (i, op) in case.ops.iter().enumerate() {
            if ex.apply(i, op).await.is_err() {
                return 0;
            }
        }
        let _ = ex.close().await;
        crate::sut::index_path(&dir, 0).metadata().map(|m| m.len()).unwrap_or(0)
    });
    let _ = std::fs::remove_dir_all(&dir);
    len
}

pub fn run(ctx: &RunCtx) -> PropResult {
    let mut report = Report::default();
    let p = profile();
    run_profile(ctx, &p, ctx.tier.pick(4000, 40_000), &mut report);
    // systematic truncation sweep of the index of a closed blob: every length (thorough) or a stride (quick)
    let mut cases = vec![];
    let mut lens = vec![];
    // key length 400: 8 record headers per leaf block, so the 46-header index has six leaves and an inner node
    // (tree region and leaves region differ - a size check that confuses the two offsets is only visible there)
    for (keylen, bloom) in [(8usize, Bloom::None), (33, Bloom::Odd), (100, Bloom::Tiny), (400, Bloom::None)] {
        let total = sweep_index_len(ctx, keylen, &bloom);
        lens.push(serde_json::json!({"keylen": keylen, "index_len": total}));
        let stride = match keylen {
            8 => ctx.tier.pick(3, 1),
            400 => ctx.tier.pick(173, 3),
            _ => ctx.tier.pick(13, 1),
        } as u64;
        let mut l = 0u64;
        while l < total {
            for lazy in [false, true] {
                if ctx.tier == Tier::Quick && lazy && l % 2 == 0 {
                    continue;
                }
                cases.push(sweep_case(keylen, bloom.clone(), lazy, Some(l as u32)));
            }
            l += stride;
        }
        // the last bytes of the file: every length in the final 40 bytes (quick: 1, 2, 3, 8, 40 bytes missing)
        let tail: Vec<u64> = if ctx.tier == Tier::Thorough { (1..=40).collect() } else { vec![1, 2, 3, 8, 40] };
        for cut in tail {
            for lazy in [false, true] {
                cases.push(sweep_case(keylen, bloom.clone(), lazy, Some(total.saturating_sub(cut) as u32)));
            }
        }
    }
    report.extra.insert("truncation_sweep".into(), serde_json::json!({"files": lens, "every_length": ctx.tier == Tier::Thorough}));
    let findings = ctx.findings.clone();
    let mut sp = profile();
    sp.phase = "history-truncsweep";
    sp.gen.nkeys = 5;
    let runf = |c: &Case, d: &std::path::Path| run_history(c, d, &sp, &findings);
    run_enumerated(ctx, "history-truncsweep", cases, runf, &sample_case, &mut report);
    // directories with 10+ and 100+ blobs: ids of different digit counts, restarts eager / lazy, with and without index files
    let mut many = vec![];
    for nblobs in if ctx.tier == Tier::Thorough { vec![9usize, 10, 11, 12, 21, 100, 101, 102, 120] } else { vec![11usize, 12, 102] } {
        for lazy in [false, true] {
            for remove in [false, true] {
                many.push(many_blobs_case(nblobs, lazy, remove, if nblobs % 2 == 0 { 8 } else { 33 }));
            }
        }
    }
    let mut mp = profile();
    mp.phase = "history-manyblobs";
    mp.gen.nkeys = 5;
    let runf = |c: &Case, d: &std::path::Path| run_history(c, d, &mp, &findings);
    run_enumerated(ctx, "history-manyblobs", many, runf, &sample_case, &mut report);
    PropResult {
        report,
        level: "fault_enumeration",
        rule: "proptest histories (as C02, plus close/create/restore of the active blob, filter off-load at every level, free_excess_resources and fsyncdata, so that what a restart reads back from index files - filters and their offsets included - is exercised through every later access path) with 1-8 close+reopen rounds (eager or lazy init); before each reopen a generated damage list is applied to the index files present: remove, truncate to a length drawn from each layout class (0, inside header, exactly header, inside filter section, inside tree meta, node region, leaf region, len-1, len - one record header, anywhere), written-flag cleared, header zeroed, all removed; stale indexes arise naturally from deletes into already-indexed blobs whose re-dump (60 s deferred in half of the configs) has not happened at close. Oracle after EVERY step: all read/contains/read_all*/read_with answers and all counts equal the reference model (hence equal before and after the restart), next_blob_id as implied by the files, every blob file id known to the model. An enumerated phase (history-manyblobs) builds directories of 11 / 12 / 102 (thorough: 9-120) blobs in which every blob holds an equal-timestamp record of one shared key, restarts them eagerly and lazily (then restore), with and without index files, writes again and restarts once more. Non-trivial = a reopen happened after at least one index file was damaged/removed or was stale. distinct = FNV hash of the serialized case.".into(),
        assumptions: common_assumptions(),
    }
}
