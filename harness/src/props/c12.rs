//! C12 Sync discipline: bounded un-synced data and write ordering for durability.
use super::{common_assumptions, PropResult};
use crate::blobfmt;
use crate::findings::Findings;
use crate::interp::{Checks, Exec, Failure, Stats};
use crate::ops::*;
use crate::runner::*;
use crate::sut::{self, Cfg};
use crate::trace::Trace;
use pearl::verif::io as vio;
use proptest::prelude::*;
use serde::{Deserialize, Serialize};
use serde_json::{json, Value};
use std::collections::BTreeSet;
use std::path::{Path, PathBuf};

const DEFAULT_LIMIT: u64 = 32 * 1024 * 1024;

pub fn sync_strategy() -> BoxedStrategy<Case> {
    let gen = GenParams { nkeys: 4, ts_span: 4, metas: 2, max_ops: 40, w_write: 40, w_delete: 10, w_switch: 8, w_wait: 12, w_reopen: 3, w_lifecycle: 10, w_maint: 8, vlen: VlenGen::Thresholds, ..Default::default() };
    let burst = (2u8..12, prop_oneof![Just(10u32), Just(5000u32), Just(100_000u32)]).prop_map(|(n, vlen)| Op::Burst { n, vlen });
    let fsync = Just(Op::Fsync);
    // the storage dropped without close(): the next instance meets blobs whose last bytes were never synced by anybody
    let abandon = prop::bool::weighted(0.3).prop_map(|lazy| Op::Abandon { lazy });
    let op = prop_oneof![16 => op_strategy(&gen), 2 => burst, 2 => fsync, 1 => abandon];
    let limit = prop_oneof![Just(Some(0u64)), Just(Some(1)), Just(Some(100)), Just(Some(4096)), Just(Some(1 << 20)), Just(None)];
    let cfg = (cfg_strategy(&[8, 33], true), limit).prop_map(|(mut c, l)| {
        c.dirty_limit = l;
        c.allow_dup = true;
        c
    });
    (cfg, prop::collection::vec(op, 0..gen.max_ops)).prop_map(|(cfg, ops)| Case { cfg, ops }).boxed()
}

struct Judge {
    trace: Trace,
    session: std::sync::Arc<vio::Session>,
    pos: usize,
    limit: u64,
    exceeded: bool,
    /// blob -> (written length, un-synced bytes) when a storage instance was dropped without close(): the next instance
    /// cannot know about those bytes (it counts from zero), so they do not count against ITS limit while they are un-synced
    inherited: std::collections::BTreeMap<PathBuf, (u64, u64)>,
}

impl Judge {
    fn pull(&mut self) {
        let evs = self.session.events_from(self.pos);
        self.pos += evs.len();
        self.trace.absorb(&evs);
    }

    /// Some *.blob file with written bytes that no completed sync covers
    fn first_unsynced_blob(&self) -> Option<(PathBuf, u64, u64)> {
        for (path, ft) in &self.trace.files {
            if path.extension().and_then(|e| e.to_str()) != Some("blob") || ft.removed.is_some() || ft.renamed_to.is_some() {
                continue;
            }
            let (w, s) = (ft.written_len_at(u64::MAX), ft.synced_len_at(u64::MAX));
            if w != s {
                return Some((path.clone(), w, s));
            }
        }
        None
    }

    /// un-synced bytes of `blob` that the running instance is accountable for
    fn unsynced_own(&self, blob: &Path) -> u64 {
        let (w, s) = self.unsynced(blob);
        let d = w - s.min(w);
        match self.inherited.get(blob) {
            Some((w0, u0)) if s < *w0 => d.saturating_sub(*u0),
            _ => d,
        }
    }

    fn unsynced(&self, blob: &Path) -> (u64, u64) {
        match self.trace.file(blob) {
            None => (0, 0),
            Some(ft) => (ft.written_len_at(u64::MAX), ft.synced_len_at(u64::MAX)),
        }
    }

    /// rule 1 and rule 2 over the whole trace
    fn ordering_rules(&self, keylen: usize) -> Result<(u64, u64), (String, String)> {
        let mut created = 0u64;
        let mut marked = 0u64;
        for (path, ft) in &self.trace.files {
            let ext = path.extension().and_then(|e| e.to_str()).unwrap_or("");
            if ext == "blob" && ft.created.is_some() {
                created += 1;
                // rule 1: the 20-byte header first, synced before anything else is written
                if let Some(w0) = ft.writes.first() {
                    if w0.offset != 0 || w0.len != blobfmt::BLOB_HEADER_LEN as u64 {
                        return Err(("sync/blob-header-not-first".into(), format!("{}: first write is {} bytes at {}", path.display(), w0.len, w0.offset)));
                    }
                    if let Some(w1) = ft.writes.get(1) {
                        let ok = ft.syncs.iter().any(|s| !s.injected && s.begin > w0.end && s.end < w1.begin);
                        if !ok {
                            return Err(("sync/record-before-header-sync".into(), format!("{}: a record was written at seq {} before the blob header (written at seq {}) was synced", path.display(), w1.begin, w0.end)));
                        }
                    }
                }
            }
            if ext == "index" {
                // rule 2: header rewrite with written=1 only after the blob bytes it describes were synced
                for w in ft.writes.iter().filter(|w| w.offset == 0 && w.len == blobfmt::INDEX_HEADER_LEN as u64 && !w.injected) {
                    let p = match &w.payload {
                        Some(p) if p.len() == blobfmt::INDEX_HEADER_LEN => p,
                        _ => continue,
                    };
                    if p[blobfmt::INDEX_WRITTEN_BYTE] & 1 == 0 {
                        continue;
                    }
                    marked += 1;
                    let blob_size = u64::from_le_bytes(p[75..83].try_into().unwrap());
                    let blob = path.with_extension("blob");
                    if let Some(bt) = self.trace.file(&blob) {
                        let need: Vec<_> = bt.writes.iter().filter(|bw| bw.offset < blob_size && bw.begin < w.begin).collect();
                        if need.is_empty() {
                            continue; // bytes written before this session started recording
                        }
                        let last_end = need.iter().map(|bw| bw.end).max().unwrap();
                        let ok = bt.syncs.iter().any(|s| !s.injected && s.begin > last_end && s.end < w.begin);
                        if !ok {
                            return Err(("sync/index-complete-before-blob-sync".into(), format!("{} marked complete at seq {} for blob size {}, but the blob bytes (last write ended at seq {}) were not synced in between", path.display(), w.begin, blob_size, last_end)));
                        }
                    }
                }
            }
        }
        let _ = keylen;
        Ok((created, marked))
    }
}

pub fn run_sync(c: &Case, dir: &Path, findings: &Findings) -> Result<CaseOut, Failure> {
    let rt = c.cfg.runtime();
    let _ = std::fs::remove_dir_all(dir);
    let session = vio::start_session(dir);
    session.set_record_payload(true);
    let limit = c.cfg.dirty_limit.unwrap_or(DEFAULT_LIMIT);
    let res = rt.block_on(async {
        let mut ex = Exec::new(c.cfg.clone(), dir.to_path_buf(), Checks::default(), 4, 1, findings);
        let mut j = Judge { trace: Trace::default(), session: session.clone(), pos: 0, limit, exceeded: false, inherited: Default::default() };
        ex.start().await?;
        let active_path = |ex: &Exec| -> Option<PathBuf> { ex.model.active.map(|a| sut::blob_path(dir, a)) };
        for (i, op) in c.ops.iter().enumerate() {
            let before_active = active_path(&ex);
            if matches!(op, Op::Abandon { .. }) {
                // what the instance that is about to be dropped leaves un-synced (it is idle: apply() waits for that first)
                let _ = crate::sut::wait_quiet(ex.s(), false, crate::interp::max_wait()).await;
                j.pull();
                let paths: Vec<PathBuf> = j.trace.files.keys().filter(|p| p.extension().and_then(|e| e.to_str()) == Some("blob")).cloned().collect();
                for p in paths {
                    let (w, s) = j.unsynced(&p);
                    if w > s {
                        j.inherited.insert(p, (w, w - s));
                    }
                }
                ex.labels.insert("instance_dropped_without_close");
            }
            ex.apply(i, op).await?;
            j.pull();
            // rule 3: explicit sync / successful close of the active blob leave no un-synced byte of that blob
            let settled: Option<(&str, PathBuf)> = match op {
                Op::Fsync => before_active.clone().map(|p| ("fsyncdata", p)),
                Op::CloseActive | Op::Switch | Op::BgClose => before_active.clone().map(|p| ("close_active", p)),
                Op::Reopen { .. } => before_active.clone().map(|p| ("close", p)),
                _ => None,
            };
            if let Some((what, p)) = settled {
                let (w, s) = j.unsynced(&p);
                if w != s {
                    return ex.fail(&format!("sync/{}-leaves-unsynced", what), format!("{}: {} bytes written, {} covered by a completed sync after {} returned", p.display(), w, s, what));
                }
                ex.labels.insert("explicit_sync_point");
            }
            // rule 5: when close() of the storage has returned nothing will ever sync again - every acknowledged byte of
            // EVERY blob (also a closed one that got a deletion marker and was waiting for its deferred dump) is synced
            if matches!(op, Op::Reopen { .. }) {
                if let Some((p, w, s)) = j.first_unsynced_blob() {
                    return ex.fail("sync/close-leaves-unsynced-closed-blob", format!("{}: {} bytes written, {} covered by a completed sync when close() returned", p.display(), w, s));
                }
                ex.labels.insert("storage_close_point");
            }
            if let Some(p) = active_path(&ex) {
                let (w, s) = j.unsynced(&p);
                if w - s.min(w) > j.limit {
                    j.exceeded = true;
                }
            }
            // rule 4: at idle nothing is pending, so the active blob's un-synced bytes must be within the limit
            if matches!(op, Op::WaitIdle) {
                j.pull();
                if let Some(p) = active_path(&ex) {
                    let (w, s) = j.unsynced(&p);
                    if j.unsynced_own(&p) > j.limit {
                        return ex.fail("sync/unsynced-above-limit-at-idle", format!("{}: {} bytes written, {} synced, limit {}; background machinery idle", p.display(), w, s, j.limit));
                    }
                    ex.labels.insert("idle_point");
                }
            }
        }
        ex.wait_idle().await?;
        j.pull();
        if let Some(p) = active_path(&ex) {
            let (w, s) = j.unsynced(&p);
            if j.unsynced_own(&p) > j.limit {
                return ex.fail("sync/unsynced-above-limit-at-idle", format!("{}: {} bytes written, {} synced, limit {}; background machinery idle (end of case)", p.display(), w, s, j.limit));
            }
        }
        let last_active = active_path(&ex);
        ex.close().await?;
        j.pull();
        if let Some(p) = last_active {
            let (w, s) = j.unsynced(&p);
            if w != s {
                return ex.fail("sync/close-leaves-unsynced", format!("{}: {} bytes written, {} covered by a completed sync after close() returned", p.display(), w, s));
            }
        }
        if let Some((p, w, s)) = j.first_unsynced_blob() {
            return ex.fail("sync/close-leaves-unsynced-closed-blob", format!("{}: {} bytes written, {} covered by a completed sync when close() returned", p.display(), w, s));
        }
        let (created, marked) = match j.ordering_rules(c.cfg.keylen) {
            Ok(x) => x,
            Err((clause, detail)) => return ex.fail(&clause, detail),
        };
        let mut labels: BTreeSet<String> = ex.labels.iter().map(|s| s.to_string()).collect();
        if j.exceeded {
            labels.insert("limit_exceeded".into());
        }
        if marked > 0 {
            labels.insert("index_marked_complete".into());
        }
        labels.insert(format!("limit_{}", c.cfg.dirty_limit.map_or("default".to_string(), |l| l.to_string())));
        let mut stats = ex.stats.clone();
        stats.queries = created + marked;
        Ok(CaseOut { nontrivial: j.exceeded || marked > 0, labels, stats, known_hits: ex.known_hits.clone(), weight: 1 })
    });
    vio::end_session(dir);
    drop(rt);
    res
}

/// Operations of the sync-fault phase: data writes with an injected failure of a blob sync in between
#[derive(Clone, Debug, Serialize, Deserialize, PartialEq)]
pub enum FOp {
    Write { vlen: u32 },
    Burst { n: u8, vlen: u32 },
    WaitIdle,
    Fsync,
    /// arm a one-shot failpoint on the n-th sync of a blob file from now on
    FailSync { nth: u16, eio: bool },
}

#[derive(Clone, Debug, Serialize, Deserialize)]
pub struct FaultCase {
    pub cfg: Cfg,
    pub ops: Vec<FOp>,
}

pub fn sync_fault_strategy() -> BoxedStrategy<FaultCase> {
    let vlen = prop_oneof![3 => 0u32..200, 1 => Just(5000u32), 1 => Just(100_000u32)];
    let op = prop_oneof![
        10 => vlen.clone().prop_map(|vlen| FOp::Write { vlen }),
        2 => (2u8..8, vlen).prop_map(|(n, vlen)| FOp::Burst { n, vlen }),
        5 => Just(FOp::WaitIdle),
        1 => Just(FOp::Fsync),
        3 => (1u16..4, any::<bool>()).prop_map(|(nth, eio)| FOp::FailSync { nth, eio }),
    ];
    let limit = prop_oneof![Just(Some(0u64)), Just(Some(1)), Just(Some(100)), Just(Some(4096))];
    let size = prop_oneof![3 => Just(1u64 << 40), 1 => Just(3000u64), 1 => Just(150_000u64)];
    let cfg = (cfg_strategy(&[8, 33], true), limit, size).prop_map(|(mut c, l, sz)| {
        c.dirty_limit = l;
        c.allow_dup = true;
        c.max_blob_size = sz;
        c
    });
    (cfg, prop::collection::vec(op, 2..30)).prop_map(|(cfg, ops)| FaultCase { cfg, ops }).boxed()
}

/// Rule 4 with a failing sync in the history: a sync that failed was performed, and leaves the bytes un-synced;
/// the next acknowledged write finds the limit exceeded again and must lead to a new sync without further action.
pub fn run_sync_fault(c: &FaultCase, dir: &Path, _findings: &Findings) -> Result<CaseOut, Failure> {
    let rt = c.cfg.runtime();
    let _ = std::fs::remove_dir_all(dir);
    let session = vio::start_session(dir);
    session.set_record_payload(true);
    let limit = c.cfg.dirty_limit.unwrap_or(DEFAULT_LIMIT);
    let fired = |s: &vio::Session| -> u64 { s.failpoints().iter().map(|f| f.fired).sum() };
    let res = rt.block_on(async {
        let fail = |clause: &str, detail: String, step: usize, op: &FOp| -> Result<CaseOut, Failure> { Err(Failure { clause: clause.into(), detail, step, op: format!("{:?}", op) }) };
        let s = match sut::open(&c.cfg, dir, false).await {
            Ok(s) => s,
            Err(e) => return fail("init/err", format!("{:#}", e), 0, &FOp::WaitIdle),
        };
        let mut j = Judge { trace: Trace::default(), session: session.clone(), pos: 0, limit, exceeded: false, inherited: Default::default() };
        let mut labels: BTreeSet<String> = BTreeSet::new();
        let mut stats = Stats::default();
        // number of fired failpoints seen when the last fully acknowledged write started (None = no such write yet)
        let mut clean_since: Option<u64> = None;
        let mut ever_fired = false;
        let mut judged_after_fault = false;
        let mut seq = 0u64;
        for (i, op) in c.ops.iter().enumerate() {
            stats.steps += 1;
            match op {
                FOp::FailSync { nth, eio } => {
                    ever_fired |= fired(&session) > 0;
                    session.disarm_all();
                    session.arm(vio::Failpoint { kind: vio::Kind::Sync, ext: "blob".into(), nth: *nth as u64, errno: if *eio { libc::EIO } else { libc::ENOSPC }, short: None, sticky: false, seen: 0, fired: 0 });
                    // disarming forgets the fired count of the previous failpoint
                    clean_since = None;
                }
                FOp::Write { .. } | FOp::Burst { .. } => {
                    let (n, vlen) = match op {
                        FOp::Write { vlen } => (1u8, *vlen),
                        FOp::Burst { n, vlen } => (*n, *vlen),
                        _ => unreachable!(),
                    };
                    // a maintenance task that is still running when the write starts may be the failing sync on its way out
                    // (its in-progress flag still set): such a write is not judged
                    let task_running = s.bg().tasks_running != 0;
                    let before = fired(&session);
                    let mut items = vec![];
                    for k in 0..n {
                        seq += 1;
                        items.push((sut::key_bytes(c.cfg.keylen, (seq % 4) as u8), value_bytes(seq as usize, vlen, 0), seq));
                    }
                    stats.writes += n as u64;
                    let results = {
                        let s = s.as_ref();
                        let futs: Vec<_> = items.into_iter().map(|(kb, val, ts)| async move { s.write(&kb, bytes::Bytes::from(val), ts, None).await }).collect();
                        futures::future::join_all(futs).await
                    };
                    let all_ok = results.iter().all(|r| r.is_ok());
                    if !all_ok && fired(&session) == before {
                        let e = results.into_iter().find_map(|r| r.err()).unwrap();
                        return fail("write/err", format!("no failpoint fired: {:#}", e), i, op);
                    }
                    clean_since = if all_ok && !task_running { Some(before) } else { None };
                }
                FOp::Fsync => {
                    let before = fired(&session);
                    let active = active_blob_path(s.as_ref(), dir).await;
                    match s.fsyncdata().await {
                        Ok(()) => {
                            j.pull();
                            if let Some(p) = active {
                                let (w, sy) = j.unsynced(&p);
                                if w != sy && fired(&session) == before {
                                    return fail("sync/fsyncdata-leaves-unsynced", format!("{}: {} bytes written, {} covered by a completed sync after fsyncdata returned Ok", p.display(), w, sy), i, op);
                                }
                            }
                        }
                        Err(e) => {
                            if fired(&session) == before {
                                return fail("fsyncdata/err", format!("no failpoint fired: {}", e), i, op);
                            }
                        }
                    }
                }
                FOp::WaitIdle => {
                    if let Err(st) = sut::wait_quiet(s.as_ref(), true, crate::interp::max_wait()).await {
                        let clause = if st.worker_alive() { "bg/stall" } else { "bg/worker-dead" };
                        return fail(clause, format!("{:?}", st), i, op);
                    }
                    j.pull();
                    let now = fired(&session);
                    ever_fired |= now > 0;
                    if ever_fired {
                        labels.insert("sync_fault_fired".into());
                    }
                    if let (Some(p), Some(snap)) = (active_blob_path(s.as_ref(), dir).await, clean_since) {
                        // no fault since before the last acknowledged write: its completion found the limit exceeded (or not)
                        // with every earlier byte still counted as un-synced, so the sync it requests covers everything
                        if snap == now {
                            let (w, sy) = j.unsynced(&p);
                            if w - sy.min(w) > j.limit {
                                return fail("sync/unsynced-above-limit-at-idle", format!("{}: {} bytes written, {} synced, limit {}; background machinery idle, {} sync failure(s) injected earlier", p.display(), w, sy, j.limit, now), i, op);
                            }
                            labels.insert("idle_point".into());
                            if ever_fired {
                                judged_after_fault = true;
                                labels.insert("idle_point_after_failed_sync".into());
                            }
                        }
                    }
                }
            }
            j.pull();
        }
        session.disarm_all();
        let _ = sut::wait_quiet(s.as_ref(), false, crate::interp::max_wait()).await;
        if let Err(e) = s.close().await {
            return fail("close/err", format!("{:#}", e), c.ops.len(), &FOp::WaitIdle);
        }
        j.pull();
        if let Err((clause, detail)) = j.ordering_rules(c.cfg.keylen) {
            return fail(&clause, detail, c.ops.len(), &FOp::WaitIdle);
        }
        labels.insert(format!("limit_{}", limit));
        Ok(CaseOut { nontrivial: judged_after_fault, labels, stats, known_hits: BTreeSet::new(), weight: 1 })
    });
    vio::end_session(dir);
    drop(rt);
    res
}

async fn active_blob_path(s: &dyn sut::Sut, dir: &Path) -> Option<PathBuf> {
    if !s.has_active().await {
        return None;
    }
    s.records_count_detailed().await.last().map(|(id, _)| sut::blob_path(dir, *id))
}

fn sample_fault(c: &FaultCase) -> Value {
    json!({"cfg": format!("keylen={} dirty_limit={:?} max_blob_size={} rt_workers={}", c.cfg.keylen, c.cfg.dirty_limit, c.cfg.max_blob_size, c.cfg.rt_workers), "ops": c.ops.iter().map(|o| format!("{:?}", o)).collect::<Vec<_>>()})
}

fn sample(c: &Case) -> Value {
    json!({"cfg": format!("keylen={} dirty_limit={:?} defer_ms={:?} rt_workers={}", c.cfg.keylen, c.cfg.dirty_limit, c.cfg.defer_ms, c.cfg.rt_workers), "ops": render_ops(&c.ops)})
}

pub fn run(ctx: &RunCtx) -> PropResult {
    let mut report = Report::default();
    let findings = ctx.findings.clone();
    let runf = |c: &Case, d: &Path| run_sync(c, d, &findings);
    run_replays::<Case, _>(ctx, "sync", &ctx.verif_dir.join("replays").join("C12"), runf, &mut report);
    let runf = |c: &Case, d: &Path| run_sync(c, d, &findings);
    run_generated(ctx, "sync", ctx.tier.pick(4000, 40_000), sync_strategy, runf, &sample, &mut report);
    let runf = |c: &FaultCase, d: &Path| run_sync_fault(c, d, &findings);
    run_replays::<FaultCase, _>(ctx, "sync-fault", &ctx.verif_dir.join("replays").join("C12"), runf, &mut report);
    let runf = |c: &FaultCase, d: &Path| run_sync_fault(c, d, &findings);
    run_generated(ctx, "sync-fault", ctx.tier.pick(1500, 15_000), sync_fault_strategy, runf, &sample_fault, &mut report);
    PropResult {
        report,
        level: "exploration",
        rule: "proptest histories (data ops with value sizes around 4 KiB / 80 KiB, concurrent write bursts, explicit fsyncdata, close/create/restore/force_update of the active blob, restarts, wait-idle) for max_dirty_bytes_before_sync in {0, 1, 100, 4096, 1 MiB, default}, run under the I/O tap with payload capture. Oracle = four rules over the ordered trace of create/write/sync events (a write counts as covered by a sync only if its end event precedes the sync's begin event): (1) every created *.blob starts with the 20-byte header and a completed sync of that file precedes its second write; (2) every index header rewrite with the written bit set is preceded by a completed sync of the sibling blob that began after all bytes below the recorded blob_size were written; (3) when fsyncdata(), try_close_active_blob()/close_active_blob_in_background() or close() have returned, every byte written to that blob is covered by a completed sync; (4) at every idle point (H3 probe: no message queued or in process, no task running) the active blob's un-synced bytes are within the limit; (5) when close() of the storage has returned, every byte written to ANY blob file is covered by a completed sync (nothing will sync later). A second phase (sync-fault) generates write / concurrent-burst / fsyncdata / wait-idle histories in which the n-th sync of a blob file fails once (failpoint, EIO or ENOSPC), for limits {0, 1, 100, 4096} with and without blob rotation: a failed sync leaves the bytes un-synced, and rule 4 is judged at every idle point that follows an acknowledged write made after the failure (that write finds the limit exceeded again, so a new sync has to happen); an error of a call is accepted only if a failpoint fired during it. Non-trivial = the limit was exceeded at some step or an index was marked complete (sync phase); rule 4 judged after an injected sync failure (sync-fault phase). distinct = FNV hash of the serialized case.".into(),
        assumptions: {
            let mut a = common_assumptions();
            a.push("rule 4 turns 'eventually' into 'once nothing is pending' (quiescence observed through the H3 probe)".into());
            a
        },
    }
}

pub fn replay_other(phase: &str, case: &Value, dir: &Path, findings: &Findings) -> Option<Result<CaseOut, Failure>> {
    if phase == "sync" {
        let runf = |c: &Case, d: &Path| run_sync(c, d, findings);
        serde_json::from_value::<Case>(case.clone()).ok().map(|c| guarded(&c, dir, &runf))
    } else if phase == "sync-fault" {
        let runf = |c: &FaultCase, d: &Path| run_sync_fault(c, d, findings);
        serde_json::from_value::<FaultCase>(case.clone()).ok().map(|c| guarded(&c, dir, &runf))
    } else {
        None
    }
}
