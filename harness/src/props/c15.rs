//! C15 Accounting: counts, ids and sizes always match the operation history.
use super::history::*;
use super::{common_assumptions, PropResult};
use crate::interp::Checks;
use crate::ops::GenParams;
use crate::runner::*;
use crate::sut::KEY_LENS;
use std::collections::BTreeSet;

fn nt(l: &BTreeSet<String>) -> bool {
    has(l, "restore") || has(l, "delete_in_closed") || has(l, "quarantine")
}

pub fn profile() -> Profile {
    Profile {
        id: "C15",
        phase: "history",
        checks: Checks { counts: true, disk_used: true, ids: true, ..Default::default() },
        gen: GenParams { nkeys: 4, ts_span: 5, metas: 3, max_ops: 50, w_write: 34, w_delete: 20, w_switch: 8, w_wait: 10, w_reopen: 6, w_lifecycle: 20, w_maint: 4, w_crash: 3, ..Default::default() },
        keylens: KEY_LENS,
        short_defer: true,
        nt,
    }
}

// ------------------------------------------------------------------------------------------------
// phase "rotation-race": the automatic switch of a full blob meets a manual lifecycle call
// ------------------------------------------------------------------------------------------------

/// The model-based histories cannot use the automatic rotation (its 200 ms debounce makes the moment of the switch a
/// matter of timing). This phase does, with an oracle that does not depend on who wins: the active blob is aged past
/// the debounce and filled to its record limit (the write that fills it requests a rotation from the worker), and a manual
/// call follows at once, without waiting for idle. Whatever the order of the two, at idle next_blob_id is one above the
/// greatest blob id in the directory (ids are handed out for blobs that come to exist), blobs_count equals the number of blob
/// files, records_count equals the number of acknowledged records, and a restart reports the same three values.
#[derive(Clone, Debug, serde::Serialize, serde::Deserialize)]
pub struct RaceCase {
    pub cfg: crate::sut::Cfg,
    /// closed blobs that exist before the race
    pub pre_blobs: u8,
    /// 0 try_close_active_blob, 1 close then create, 2 try_restore (refused: an active blob exists), 3 force_update(always),
    /// 4 close_active_blob_in_background, 5 a delete of a stored key
    pub follow: u8,
    pub rounds: u8,
}

fn race_cases(thorough: bool) -> Vec<RaceCase> {
    let mut v = vec![];
    for follow in 0..6u8 {
        for rt_workers in [0usize, 2] {
            for limit in if thorough { vec![2u64, 3, 5] } else { vec![3u64] } {
                for pre_blobs in if thorough { vec![0u8, 1, 3] } else { vec![0u8, 2] } {
                    v.push(RaceCase { cfg: crate::sut::Cfg { keylen: 8, rt_workers, allow_dup: true, max_data_in_blob: limit, defer_ms: (2, 5), ..crate::sut::Cfg::default() }, pre_blobs, follow, rounds: if thorough { 3 } else { 2 } });
                }
            }
        }
    }
    v
}

pub fn run_race(c: &RaceCase, dir: &std::path::Path, _findings: &crate::findings::Findings) -> Result<CaseOut, crate::interp::Failure> {
    use crate::interp::Failure;
    use crate::sut::{self, key_bytes, wait_quiet};
    use std::time::Duration;
    let fail = |clause: &str, detail: String, step: usize| -> Result<CaseOut, Failure> { Err(Failure { clause: clause.into(), detail, step, op: format!("follow {}", c.follow) }) };
    let rt = c.cfg.runtime();
    let _ = std::fs::remove_dir_all(dir);
    let res = rt.block_on(async {
        let s = match sut::open(&c.cfg, dir, false).await {
            Ok(s) => s,
            Err(e) => return fail("init/err", format!("{:#}", e), 0),
        };
        let keylen = c.cfg.keylen;
        let limit = c.cfg.max_data_in_blob as usize;
        let mut acked = 0usize;
        let mut stats = crate::interp::Stats::default();
        let mut put = |n: usize| (key_bytes(keylen, (n % 200) as u8), bytes::Bytes::from(vec![b'r'; 16]), 1 + n as u64);
        for _ in 0..c.pre_blobs {
            let (k, v, t) = put(acked);
            if let Err(e) = s.write(&k, v, t, None).await {
                return fail("write/err", format!("{:#}", e), acked);
            }
            acked += 1;
            let _ = s.try_close_active().await;
            let _ = s.try_create_active().await;
        }
        for round in 0..c.rounds as usize {
            let _ = wait_quiet(s.as_ref(), true, Duration::from_secs(60)).await;
            if !s.has_active().await {
                let _ = s.try_create_active().await;
            }
            let have = s.records_count_in_active().await.unwrap_or(0);
            // fill up to one below the limit, age the blob, then the write that fills it
            for _ in have..limit.saturating_sub(1) {
                let (k, v, t) = put(acked);
                if let Err(e) = s.write(&k, v, t, None).await {
                    return fail("write/err", format!("{:#}", e), acked);
                }
                acked += 1;
            }
            tokio::time::sleep(Duration::from_millis(230)).await;
            let (k, v, t) = put(acked);
            if let Err(e) = s.write(&k, v, t, None).await {
                return fail("write/err", format!("{:#}", e), acked);
            }
            acked += 1;
            stats.writes = acked as u64;
            // ... and at once:
            match c.follow {
                0 => {
                    let _ = s.try_close_active().await;
                }
                1 => {
                    let _ = s.try_close_active().await;
                    let _ = s.try_create_active().await;
                }
                2 => {
                    let _ = s.try_restore_active().await;
                }
                3 => s.force_update(crate::sut::Pred::Always).await,
                4 => s.close_active_bg().await,
                _ => {
                    if let Ok(n) = s.delete(&key_bytes(keylen, 0), 1_000_000 + round as u64, None, true).await {
                        acked += n as usize;
                    }
                }
            }
            if wait_quiet(s.as_ref(), true, Duration::from_secs(60)).await.is_err() {
                return fail("bg/stall", "no idle state 60 s after the race".into(), round);
            }
            let files: Vec<usize> = sut::list_files(dir).into_iter().filter(|x| !x.1).map(|x| x.0).collect();
            let implied = files.iter().max().map_or(0, |m| m + 1);
            stats.queries += 3;
            if s.next_blob_id() != implied {
                return fail("next_blob_id/not-implied-by-files", format!("round {}: next_blob_id = {} but the blob files are {:?} (an id was taken for a blob that never came to exist)", round, s.next_blob_id(), files), round);
            }
            let bc = s.blobs_count().await;
            if bc != files.len() {
                return fail("blobs_count/mismatch", format!("round {}: blobs_count = {} but {} blob files exist {:?}", round, bc, files.len(), files), round);
            }
            let rc = s.records_count().await;
            if rc != acked {
                return fail("records_count/mismatch", format!("round {}: records_count = {} but {} records were acknowledged", round, rc, acked), round);
            }
        }
        let (n0, b0, r0) = (s.next_blob_id(), s.blobs_count().await, s.records_count().await);
        if let Err(e) = s.close().await {
            return fail("close/err", format!("{:#}", e), 0);
        }
        let s = match sut::open(&c.cfg, dir, false).await {
            Ok(s) => s,
            Err(e) => return fail("init/err", format!("after the races: {:#}", e), 0),
        };
        let (n1, b1, r1) = (s.next_blob_id(), s.blobs_count().await, s.records_count().await);
        let _ = s.close().await;
        // (an empty active blob left by the last round is dropped by the restart, with it its id may be re-used: compare
        // what the files imply, not the raw numbers, when the last blob was empty)
        if r1 != r0 {
            return fail("records_count/mismatch", format!("before the restart {} records, after it {}", r0, r1), 0);
        }
        if n1 > n0 || b1 > b0 {
            return fail("next_blob_id/changed-by-restart", format!("before the restart next_blob_id {} / blobs_count {}, after it {} / {}", n0, b0, n1, b1), 0);
        }
        let mut labels = BTreeSet::new();
        labels.insert(format!("race_follow_{}", c.follow));
        Ok(CaseOut { nontrivial: true, labels, stats, known_hits: Default::default(), weight: 1 })
    });
    drop(rt);
    res
}

fn sample_race(c: &RaceCase) -> serde_json::Value {
    serde_json::json!({"rt_workers": c.cfg.rt_workers, "record_limit": c.cfg.max_data_in_blob, "closed_blobs_before": c.pre_blobs, "call_right_after_the_filling_write(0 close,1 close+create,2 restore,3 force_update,4 bg close,5 delete)": c.follow, "rounds": c.rounds})
}

pub fn run(ctx: &RunCtx) -> PropResult {
    let mut report = Report::default();
    let p = profile();
    run_profile(ctx, &p, ctx.tier.pick(6000, 100_000), &mut report);
    let findings = ctx.findings.clone();
    let runf = |c: &RaceCase, d: &std::path::Path| run_race(c, d, &findings);
    run_enumerated(ctx, "rotation-race", race_cases(ctx.tier == Tier::Thorough), runf, &sample_race, &mut report);
    PropResult {
        report,
        level: "exploration",
        rule: "proptest histories with deletes into closed blobs, manual close/restore/create of the active blob, forced switches, restarts, and crash-restarts in which the harness damages blob files so that init quarantines them (cut inside a record header / body / the blob header, zeroed magic, flipped header byte); after EVERY step records_count, records_count_detailed (ids and counts of closed blobs, count of the active one), records_count_in_active_blob, blobs_count, next_blob_id, corrupted_blobs_count compared with the model, blob files on disk checked against the ids the model handed out; at every wait-idle point disk_used compared with the directory listing. An enumerated phase (rotation-race) uses the automatic rotation the histories must avoid: the active blob is aged past the 200 ms debounce and filled to its record limit (the filling write asks the worker for a switch) and a manual call follows at once (close, close+create, restore, forced update, background close, delete), on both runtimes; whoever wins, at idle next_blob_id is one above the greatest blob id in the directory, blobs_count equals the number of blob files and records_count the number of acknowledged records, and a restart changes none of them upwards. Non-trivial = the history contains a successful restore, a delete into a closed blob or a quarantine. distinct = FNV hash of the serialized case.".into(),
        assumptions: common_assumptions(),
    }
}

pub fn replay_other(phase: &str, case: &serde_json::Value, dir: &std::path::Path, findings: &crate::findings::Findings) -> Option<Result<CaseOut, crate::interp::Failure>> {
    if phase == "rotation-race" {
        let runf = |c: &RaceCase, d: &std::path::Path| run_race(c, d, findings);
        serde_json::from_value::<RaceCase>(case.clone()).ok().map(|c| guarded(&c, dir, &runf))
    } else {
        None
    }
}
