//! C15 Accounting: counts, ids and sizes always match the operation history.
use super::history::*;
use super::{common_assumptions, PropResult};
use crate::interp::Checks;
use crate::ops::GenParams;
use crate::runner::*;
use crate::sut::KEY_LENS;
use std::collections::BTreeSet;

fn nt(l: &BTreeSet<String>) -> bool {
    has(l, "restore") || has(l, "delete_in_closed") || has(l, "quarantine")
}

pub fn profile() -> Profile {
    Profile {
        id: "C15",
        phase: "history",
        checks: Checks { counts: true, disk_used: true, ids: true, ..Default::default() },
        gen: GenParams { nkeys: 4, ts_span: 5, metas: 3, max_ops: 50, w_write: 34, w_delete: 20, w_switch: 8, w_wait: 10, w_reopen: 6, w_lifecycle: 20, w_maint: 4, w_crash: 3, ..Default::default() },
        keylens: KEY_LENS,
        short_defer: true,
        nt,
    }
}

pub fn run(ctx: &RunCtx) -> PropResult {
    let mut report = Report::default();
    let p = profile();
    run_profile(ctx, &p, ctx.tier.pick(6000, 100_000), &mut report);
    PropResult {
        report,
        level: "exploration",
        rule: "proptest histories with deletes into closed blobs, manual close/restore/create of the active blob, forced switches, restarts, and crash-restarts in which the harness damages blob files so that init quarantines them (cut inside a record header / body / the blob header, zeroed magic, flipped header byte); after EVERY step records_count, records_count_detailed (ids and counts of closed blobs, count of the active one), records_count_in_active_blob, blobs_count, next_blob_id, corrupted_blobs_count compared with the model, blob files on disk checked against the ids the model handed out; at every wait-idle point disk_used compared with the directory listing. Non-trivial = the history contains a successful restore, a delete into a closed blob or a quarantine. distinct = FNV hash of the serialized case.".into(),
        assumptions: common_assumptions(),
    }
}
