//! C05 Byte integrity: values round-trip exactly; altered bytes are never served.
use super::history::*;
use super::{common_assumptions, PropResult};
use crate::blobfmt;
use crate::interp::{Checks, Exec, Failure};
use crate::model::Pos;
use crate::ops::*;
use crate::runner::*;
use crate::sut::{self, to_meta, Cfg, LoadMode, MetaMap, RR};
use proptest::prelude::*;
use serde::{Deserialize, Serialize};
use serde_json::{json, Value};
use std::collections::BTreeSet;
use std::path::Path;

fn nt_roundtrip(l: &BTreeSet<String>) -> bool {
    has(l, "threshold_value")
}

const C05_KEYLENS: &[usize] = &[1, 8, 33, 400];

pub fn profile() -> Profile {
    Profile {
        id: "C05",
        phase: "history",
        checks: Checks { read: true, versions: true, load_parts: true, ..Default::default() },
        gen: GenParams { nkeys: 3, ts_span: 4, metas: META_POOL_ALL, max_ops: 24, w_write: 60, w_delete: 6, w_switch: 10, w_wait: 8, w_reopen: 8, vlen: VlenGen::ThresholdsBig, fills: 4, ..Default::default() },
        keylens: C05_KEYLENS,
        short_defer: false,
        nt: nt_roundtrip,
    }
}

#[derive(Clone, Debug, Serialize, Deserialize)]
pub struct CorruptCase {
    pub cfg: Cfg,
    pub ops: Vec<Op>,
    /// selects the record (among all stored records with data)
    pub rec_sel: u16,
    /// position of the burst inside the record's data region
    pub pos_frac: u16,
    /// XOR mask, applied little-endian at the position (clipped to the data region); never zero
    pub mask: u32,
    /// 0: corrupt while the storage is open; 1: close, corrupt, reopen with indexes; 2: close, corrupt, remove indexes, reopen
    pub mode: u8,
    pub lazy: bool,
}

pub fn corrupt_strategy() -> BoxedStrategy<CorruptCase> {
    let gen = GenParams { nkeys: 3, ts_span: 4, metas: 3, max_ops: 16, w_write: 70, w_delete: 8, w_switch: 14, w_wait: 8, w_reopen: 0, vlen: VlenGen::ThresholdsBig, fills: 4, ..Default::default() };
    let cfg = (cfg_strategy(C05_KEYLENS, false), any::<bool>(), prop::bool::weighted(0.2)).prop_map(|(mut c, v, ig)| {
        c.validate_data = v;
        c.ignore_corrupted = ig;
        c.allow_dup = true;
        c
    });
    let mask = prop_oneof![
        3 => (0u32..32).prop_map(|b| 1u32 << b),
        3 => any::<u32>().prop_map(|m| if m == 0 { 1 } else { m }),
        1 => Just(0xFFu32), 1 => Just(0xFFFF_FFFFu32), 1 => Just(0x8000_0001u32),
    ];
    (cfg, prop::collection::vec(op_strategy(&gen), 1..gen.max_ops), any::<u16>(), any::<u16>(), mask, 0u8..4, prop::bool::weighted(0.3))
        .prop_map(|(cfg, ops, rec_sel, pos_frac, mask, mode, lazy)| CorruptCase { cfg, ops, rec_sel, pos_frac, mask, mode, lazy })
        .boxed()
}

fn f<T>(ex: &Exec, clause: &str, detail: String) -> Result<T, Failure> {
    ex.fail(clause, detail)
}

pub fn run_corrupt(c: &CorruptCase, dir: &Path, findings: &crate::findings::Findings) -> Result<CaseOut, Failure> {
    let rt = c.cfg.runtime();
    let res = rt.block_on(async {
        let nkeys = 3u8;
        let metas = 3u8;
        let mut ex = Exec::new(c.cfg.clone(), dir.to_path_buf(), Checks { read: true, versions: true, ..Default::default() }, nkeys, metas, findings);
        ex.start().await?;
        for (i, op) in c.ops.iter().enumerate() {
            ex.apply(i, op).await?;
        }
        ex.wait_idle().await?;
        ex.check().await?;
        ex.step = c.ops.len();
        ex.cur_op = "corrupt".into();
        // locate the victim record with the harness's own parser
        let mut cands: Vec<(usize, usize, u64, u64)> = vec![];
        for b in ex.model.present() {
            let parsed = match blobfmt::parse_blob_file(&sut::blob_path(dir, b), c.cfg.keylen) {
                Ok(p) => p,
                Err(e) => return f(&ex, "harness/parse", format!("{}", e)),
            };
            if parsed.end != blobfmt::ParseEnd::Clean || parsed.records.len() != ex.model.count_of(b) {
                return f(&ex, "blobfile/parse", format!("blob {} parses to {} records (model {}), end {:?}", b, parsed.records.len(), ex.model.count_of(b), parsed.end));
            }
            for (i, r) in parsed.records.iter().enumerate() {
                if r.hdr.data_size > 0 {
                    cands.push((b, i, r.data_pos(), r.hdr.data_size));
                }
            }
        }
        let mut labels: BTreeSet<String> = ex.labels.iter().map(|s| s.to_string()).collect();
        if cands.is_empty() {
            ex.close().await?;
            return Ok(CaseOut { nontrivial: false, labels, stats: ex.stats.clone(), known_hits: ex.known_hits.clone(), weight: 1 });
        }
        let (blob, ridx, dpos, dsize) = cands[crate::damage::pick(c.rec_sel, cands.len())];
        let target: Pos = (blob, ridx);
        let off = crate::damage::span(c.pos_frac, 0, dsize - 1);
        let width = (dsize - off).min(4) as usize;
        let mut mask = c.mask.to_le_bytes();
        if mask[..width].iter().all(|b| *b == 0) {
            mask[0] = 1;
        }
        if c.mode == 3 {
            // restart with every index regenerated by the (possibly validating) scan of the still intact blobs,
            // then alter the bytes while that session is open: a start-up validation is no licence to skip later audits
            ex.close().await?;
            for (_, is_idx, p) in sut::list_files(dir) {
                if is_idx {
                    let _ = std::fs::remove_file(p);
                }
            }
            match sut::open(&c.cfg, dir, c.lazy).await {
                Ok(s) => ex.sut = Some(s),
                Err(e) => return f(&ex, "init/err", format!("{:#}", e)),
            }
            ex.model.restart(c.lazy);
        }
        if c.mode == 1 || c.mode == 2 {
            ex.close().await?;
        }
        // entries of the victim's key handed out BEFORE the alteration and loaded once: a second load of the same Entry
        // object after the alteration must not return the altered bytes either (sessions that stay open only)
        let victim_key = ex.model.blobs.get(&blob).and_then(|b| b.get(ridx)).map(|r| r.key).unwrap_or(0);
        let mut held = None;
        if c.mode == 0 || c.mode == 3 {
            let kb = ex.key(victim_key);
            match ex.s().hold_entries(&kb).await {
                Ok(mut h) => {
                    let exp = ex.model.exp_read_all(victim_key, true);
                    let first = h.load_data_all().await;
                    if first.len() != exp.len() {
                        return f(&ex, "read_all_with_deletion_marker/len", format!("key {} got {} expected {}", victim_key, first.len(), exp.len()));
                    }
                    for (g, e) in first.iter().zip(exp.iter()) {
                        match g {
                            Ok(d) if *d == e.data => {}
                            Ok(_) => return f(&ex, "entry/load_data-mismatch", format!("key {} entry at {:?}", victim_key, e.pos)),
                            Err(err) => return f(&ex, "entry/load_data-err", format!("key {} entry at {:?}: {:#}", victim_key, e.pos, err)),
                        }
                    }
                    held = Some((h, exp));
                }
                Err(e) => return f(&ex, "read_all_with_deletion_marker/err", format!("key {}: {:#}", victim_key, e)),
            }
        }
        {
            use std::os::unix::fs::FileExt;
            let path = sut::blob_path(dir, blob);
            let file = std::fs::OpenOptions::new().read(true).write(true).open(&path).map_err(|e| Failure { clause: "harness/open".into(), detail: e.to_string(), step: 0, op: String::new() })?;
            let mut buf = [0u8; 4];
            file.read_exact_at(&mut buf[..width], dpos + off).map_err(|e| Failure { clause: "harness/read".into(), detail: e.to_string(), step: 0, op: String::new() })?;
            for i in 0..width {
                buf[i] ^= mask[i];
            }
            file.write_all_at(&buf[..width], dpos + off).map_err(|e| Failure { clause: "harness/write".into(), detail: e.to_string(), step: 0, op: String::new() })?;
        }
        labels.insert(format!("mode_{}", c.mode));
        if let Some((mut h, exp)) = held {
            let second = h.load_data_all().await;
            for (g, e) in second.iter().zip(exp.iter()) {
                ex.stats.queries += 1;
                match (g, e.pos == target) {
                    (Ok(_), true) => return f(&ex, "corrupt/held-entry-served", format!("key {} entry at {:?}: load_data on an Entry obtained (and loaded once) before the alteration returned Ok", victim_key, e.pos)),
                    (Ok(d), false) if *d != e.data => return f(&ex, "corrupt/entry-mismatch", format!("key {} held entry at {:?}", victim_key, e.pos)),
                    (Err(err), false) => return f(&ex, "corrupt/collateral-entry-err", format!("key {} held entry at {:?}: {:#}", victim_key, e.pos, err)),
                    _ => {}
                }
            }
            labels.insert("held_entry_reloaded".to_string());
        }
        let mut dropped = false;
        if c.mode == 1 || c.mode == 2 {
            if c.mode == 2 {
                for (_, is_idx, p) in sut::list_files(dir) {
                    if is_idx {
                        let _ = std::fs::remove_file(p);
                    }
                }
            }
            match sut::open(&c.cfg, dir, c.lazy).await {
                Ok(s) => ex.sut = Some(s),
                Err(e) => {
                    // the only blob of the directory is damaged and corrupted blobs are merely ignored: nothing to start from
                    return f(&ex, "init/err", format!("{:#}", e));
                }
            }
            let quarantined = dir.join("corrupted").join(format!("{}.{}.blob", sut::PREFIX, blob)).exists();
            let rc = ex.s().records_count().await;
            let with = ex.model.records_total();
            let without = with - ex.model.count_of(blob);
            if quarantined || (rc == without && rc != with) {
                dropped = true;
                // with data validation on, init may rescan any blob whose index is missing or stale and then drops it
                if !c.cfg.validate_data {
                    return f(&ex, "init/dropped-blob-unexpectedly", format!("blob {} was dropped (quarantined={}) although data validation is off", blob, quarantined));
                }
                if quarantined {
                    // quarantined intact: same bytes as the damaged file we produced
                    labels.insert("quarantined".to_string());
                } else {
                    labels.insert("ignored".to_string());
                }
                let max_id = ex.model.present().into_iter().max().unwrap_or(0);
                ex.model.quarantine(blob);
                ex.model.restart(c.lazy);
                if ex.model.next_id <= max_id {
                    ex.model.next_id = max_id + 1;
                }
            } else {
                ex.model.restart(c.lazy);
            }
        }
        // queries
        let mut affected = 0u32;
        for key in 0..nkeys {
            let kb = ex.key(key);
            // read
            let exp = ex.model.exp_read(key);
            let touches = !dropped && ex.model.top_pos(key) == Some(target);
            ex.stats.queries += 1;
            match ex.s().read(&kb).await {
                Ok(got) => {
                    if touches {
                        return f(&ex, "corrupt/read-served", format!("key {}: read returned {} although the data of its first-ranked record was altered", key, crate::interp::show_rr(&got)));
                    }
                    if got != exp {
                        return f(&ex, "corrupt/read-mismatch", format!("key {} got {} expected {}", key, crate::interp::show_rr(&got), crate::interp::show_rr(&exp)));
                    }
                }
                Err(e) => {
                    if !touches {
                        return f(&ex, "corrupt/collateral-read-err", format!("key {}: {:#}", key, e));
                    }
                    affected += 1;
                }
            }
            // read_with
            for mi in 1..=metas {
                let mm: MetaMap = meta_pool(mi).unwrap_or_default();
                let (exp, pos) = ex.model.exp_read_with(key, &mm);
                let touches = !dropped && pos == Some(target);
                ex.stats.queries += 1;
                match ex.s().read_with(&kb, &to_meta(&mm)).await {
                    Ok(got) => {
                        if touches {
                            return f(&ex, "corrupt/read_with-served", format!("key {} meta {}: returned {}", key, mi, crate::interp::show_rr(&got)));
                        }
                        let ok = match (&got, &exp) {
                            (RR::Found(a), RR::Found(b)) => a == b,
                            (RR::Deleted(_), RR::Deleted(_)) | (RR::NotFound, RR::NotFound) => true,
                            _ => false,
                        };
                        if !ok {
                            return f(&ex, "corrupt/read_with-mismatch", format!("key {} meta {}", key, mi));
                        }
                    }
                    Err(e) => {
                        if !touches {
                            return f(&ex, "corrupt/collateral-read_with-err", format!("key {} meta {}: {:#}", key, mi, e));
                        }
                        affected += 1;
                    }
                }
            }
            // read_all, both load APIs
            let exp = ex.model.exp_read_all(key, true);
            for mode in [LoadMode::Full, LoadMode::Parts] {
                ex.stats.queries += 1;
                let got = match ex.s().read_all(&kb, true, mode).await {
                    Ok(g) => g,
                    Err(e) => return f(&ex, "corrupt/read_all-err", format!("key {}: {:#}", key, e)),
                };
                if got.len() != exp.len() {
                    return f(&ex, "corrupt/read_all-len", format!("key {} got {} expected {}", key, got.len(), exp.len()));
                }
                for (g, e) in got.into_iter().zip(exp.iter()) {
                    let touches = !dropped && e.pos == target;
                    match g {
                        Ok(g) => {
                            if touches {
                                return f(&ex, "corrupt/entry-served", format!("key {} entry at {:?} loaded ({:?}) although its data was altered", key, e.pos, mode));
                            }
                            if g.data != e.data || g.meta != to_meta(&e.meta) || g.ts != e.ts {
                                return f(&ex, "corrupt/entry-mismatch", format!("key {} entry at {:?}", key, e.pos));
                            }
                        }
                        Err(err) => {
                            if !touches {
                                return f(&ex, "corrupt/collateral-entry-err", format!("key {} entry at {:?}: {:#}", key, e.pos, err));
                            }
                            affected += 1;
                        }
                    }
                }
            }
        }
        if affected > 0 {
            labels.insert("damaged_record_queried".to_string());
        }
        if ex.model.top_pos(ex.model.blobs.get(&blob).and_then(|b| b.get(ridx)).map(|r| r.key).unwrap_or(0)) == Some(target) {
            labels.insert("damaged_record_is_first_ranked".to_string());
        }
        if dsize > 4096 {
            labels.insert("damaged_two_buffer_record".to_string());
        }
        // the storage must stay usable
        let r = ex.s().write(&ex.key(0), bytes::Bytes::from_static(b"after"), 3, None).await;
        if let Err(e) = r {
            return f(&ex, "corrupt/write-after-err", format!("{:#}", e));
        }
        ex.close().await?;
        let nontrivial = affected > 0 || dropped;
        Ok(CaseOut { nontrivial, labels, stats: ex.stats.clone(), known_hits: ex.known_hits.clone(), weight: 1 })
    });
    drop(rt);
    res
}

fn sample_corrupt(c: &CorruptCase) -> Value {
    json!({"cfg": format!("keylen={} validate_data={} ignore_corrupted={} rt_workers={}", c.cfg.keylen, c.cfg.validate_data, c.cfg.ignore_corrupted, c.cfg.rt_workers), "ops": render_ops(&c.ops), "victim_selector": c.rec_sel, "position_frac": c.pos_frac, "xor_mask": format!("{:#010x}", c.mask), "mode": (["open", "closed, indexes kept", "closed, indexes removed", "restarted without indexes, then altered while open"][c.mode as usize % 4]), "lazy": c.lazy})
}

/// Every value length 0..=8300 once (and around 80 KiB): write, read back through every API, switch, read again
fn length_sweep_case(keylen: usize, rt_workers: usize, lens: &[u32]) -> Case {
    let mut ops = vec![];
    for (i, l) in lens.iter().enumerate() {
        ops.push(Op::Write { key: (i % 3) as u8, ts: i as u64 % 5, meta: (i % 4) as u8, vlen: *l, fill: (i % 3) as u8 });
    }
    ops.push(Op::Switch);
    ops.push(Op::WaitIdle);
    ops.push(Op::Reopen { lazy: false, remove_all_idx: true, damage: vec![] });
    Case { cfg: Cfg { keylen, rt_workers, allow_dup: true, ..Cfg::default() }, ops }
}

pub fn run(ctx: &RunCtx) -> PropResult {
    let mut report = Report::default();
    let p = profile();
    run_profile(ctx, &p, ctx.tier.pick(3000, 30_000), &mut report);
    // systematic value-length sweep
    let mut cases = vec![];
    let step = ctx.tier.pick(7usize, 1usize);
    let mut lens: Vec<u32> = (0..=8300u32).step_by(step).collect();
    for t in [4096u32, 81_920] {
        for d in -70i64..=4 {
            lens.push((t as i64 + d) as u32);
        }
    }
    for (ci, chunk) in lens.chunks(12).enumerate() {
        cases.push(length_sweep_case([8usize, 33, 1][ci % 3], if ci % 4 == 0 { 0 } else { 2 }, chunk));
    }
    let findings = ctx.findings.clone();
    let mut sp = profile();
    sp.phase = "history-lengthsweep";
    sp.nt = |l| has(l, "reopen");
    let runf = |c: &Case, d: &Path| run_history(c, d, &sp, &findings);
    run_enumerated(ctx, "history-lengthsweep", cases, runf, &sample_case, &mut report);
    // corruption
    let findings = ctx.findings.clone();
    let runc = |c: &CorruptCase, d: &Path| run_corrupt(c, d, &findings);
    run_replays::<CorruptCase, _>(ctx, "corrupt", &ctx.verif_dir.join("replays").join("C05"), runc, &mut report);
    let runc = |c: &CorruptCase, d: &Path| run_corrupt(c, d, &findings);
    run_generated(ctx, "corrupt", ctx.tier.pick(5000, 60_000), corrupt_strategy, runc, &sample_corrupt, &mut report);
    PropResult {
        report,
        level: "fault_enumeration",
        rule: "(round trip) histories whose value lengths are centred on the write-path thresholds (4096 - header - meta +-2, 4096 +-2, 81920 - header - meta +-2, 81920 +-2), plus 0..2, 3..6000, 200000 bytes and (5 % of the writes) 1 MiB - 1 / 1 MiB / 1 MiB + 517 / 3 MiB + 1, four fill kinds (pseudo-random, all zero, the record magic pattern, and pseudo-random with a forged tail so that the value's CRC32C is exactly 0 - the checksum of an empty value), an 8-entry metadata pool (empty, binary, empty and non-ASCII names, 700-byte value, one 70 000-byte value); read, read_with, Entry::load, Entry::load_data + load_meta compared byte-for-byte with the model after every step with the index in memory, on disk and regenerated, on both runtime flavours; an enumerated phase writes every 7th (quick) / every (thorough) length 0..8300 and the neighbourhood of both thresholds. (corruption) a generated history, then a stored record chosen through the harness's own blob parser, a position in its data region and an XOR burst of at most 32 bits (<=4 contiguous bytes); applied with the storage open (in the writing session, or in a session that started by regenerating every index - with data validation on that start-up scan has just validated the bytes), or closed then reopened with index files kept / removed, data validation on/off, corrupted blobs quarantined/ignored. Oracle: every query whose answer needs the altered data returns Err (CRC32C detects every burst <=32 bits, so there is no probabilistic slack) or the blob was dropped by init with validation on (then answers equal the model without that blob); every other query returns exactly the model's answer; a following write succeeds. Non-trivial: round trip = a threshold-relative length was written; corruption = a query touched the altered record or the blob was dropped. distinct = FNV hash of the serialized case.".into(),
        assumptions: common_assumptions(),
    }
}

pub fn replay_other(phase: &str, case: &Value, dir: &Path, findings: &crate::findings::Findings) -> Option<Result<CaseOut, Failure>> {
    if phase == "corrupt" {
        let runc = |c: &CorruptCase, d: &Path| run_corrupt(c, d, findings);
        serde_json::from_value::<CorruptCase>(case.clone()).ok().map(|c| guarded(&c, dir, &runc))
    } else {
        None
    }
}
