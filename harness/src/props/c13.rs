//! C13 Background maintenance stays alive: rotation continues and close terminates.
use super::{common_assumptions, PropResult};
use crate::findings::Findings;
use crate::interp::{Failure, Stats};
use crate::ops::*;
use crate::runner::*;
use crate::sut::{self, key_bytes, to_meta, wait_quiet, Cfg, Pred, Sut};
use bytes::Bytes;
use proptest::prelude::*;
use serde_json::{json, Value};
use std::collections::BTreeSet;
use std::path::Path;
use std::time::Duration;

pub fn live_strategy() -> BoxedStrategy<Case> {
    let gen = GenParams { nkeys: 4, ts_span: 4, metas: 2, max_ops: 25, w_write: 30, w_delete: 10, w_switch: 4, w_wait: 6, w_reopen: 2, w_lifecycle: 22, w_maint: 6, w_bg: 30, ..Default::default() };
    let cfg = (cfg_strategy(&[8, 33], false), 3u64..12, any::<bool>()).prop_map(|(mut c, limit, by_size)| {
        c.defer_ms = (2, 5);
        if by_size {
            c.max_blob_size = 200 + limit * 90;
        } else {
            c.max_data_in_blob = limit;
        }
        c.allow_dup = true;
        c
    });
    // a worker that is late for a pending deferred dump while the next deferring request is already queued:
    // delete (marks a closed blob) - slow predicate - delete, spliced into a third of the histories
    let splice = prop_oneof![2 => Just(None), 1 => (any::<u16>(), 0u8..4, 0u8..4).prop_map(Some)];
    // init() once more on the live object, in a tenth of the histories
    let again = prop_oneof![9 => Just(None), 1 => any::<u16>().prop_map(Some)];
    (cfg, prop::collection::vec(op_strategy(&gen), 0..gen.max_ops), splice, again)
        .prop_map(|(cfg, mut ops, splice, again)| {
            if let Some(pos) = again {
                let at = crate::damage::pick(pos, ops.len() + 1);
                ops.insert(at, Op::InitAgain);
            }
            if let Some((pos, k1, k2)) = splice {
                let at = crate::damage::pick(pos, ops.len() + 1);
                let triple = [Op::Delete { key: k1, ts: 3, meta: 0, only_if: false }, Op::ForceUpdate(Pred::SlowNever), Op::Delete { key: k2, ts: 3, meta: 0, only_if: false }];
                for (j, o) in triple.into_iter().enumerate() {
                    ops.insert(at + j, o);
                }
            }
            Case { cfg, ops }
        })
        .boxed()
}

fn fail<T>(clause: &str, detail: String, step: usize, op: &str) -> Result<T, Failure> {
    Err(Failure { clause: clause.into(), detail, step, op: op.to_string() })
}

async fn blind(s: &mut Box<dyn Sut>, cfg: &Cfg, idx: usize, op: &Op, labels: &mut BTreeSet<String>) {
    let keylen = cfg.keylen;
    match op {
        Op::Write { key, ts, meta, vlen, fill } => {
            let mm = meta_pool(*meta);
            let val = value_bytes(idx, resolve_vlen(*vlen, keylen, &mm), *fill);
            let _ = s.write(&key_bytes(keylen, *key), Bytes::from(val), *ts, mm.as_ref().map(to_meta)).await;
        }
        Op::Delete { key, ts, meta, only_if } => {
            let mm = meta_pool(*meta);
            let _ = s.delete(&key_bytes(keylen, *key), *ts, mm.as_ref().map(to_meta), *only_if).await;
        }
        Op::CloseActive => {
            let _ = s.try_close_active().await;
        }
        Op::CreateActive => {
            let _ = s.try_create_active().await;
        }
        Op::Restore => {
            let _ = s.try_restore_active().await;
        }
        Op::Switch => {
            let _ = s.try_close_active().await;
            let _ = s.try_create_active().await;
        }
        Op::ForceUpdate(p) => s.force_update(*p).await,
        Op::BgClose => {
            if !s.has_active().await {
                labels.insert("bg_inapplicable".into());
            }
            s.close_active_bg().await
        }
        Op::BgCreate => {
            if s.has_active().await {
                labels.insert("bg_inapplicable".into());
            }
            s.create_active_bg().await
        }
        Op::BgRestore => {
            if s.has_active().await || s.blobs_count().await == 0 {
                labels.insert("bg_inapplicable".into());
            }
            s.restore_active_bg().await
        }
        Op::WaitIdle => {
            let _ = wait_quiet(s.as_ref(), true, Duration::from_secs(60)).await;
        }
        Op::Offload { level, need } => {
            let _ = s.offload(crate::ops::offload_needed(*need), *level as usize).await;
        }
        Op::Fsync => {
            let _ = s.fsyncdata().await;
        }
        Op::Free => {
            let _ = s.free_excess_resources().await;
        }
        Op::InitAgain => {
            // (only when nothing is in flight: a second init re-reads the directory)
            let _ = wait_quiet(s.as_ref(), true, Duration::from_secs(60)).await;
            let _ = s.init_again().await;
            labels.insert("init_called_again".into());
        }
        _ => {}
    }
}

/// Every non-empty closed blob has an index file with the written flag and the blob's current size
async fn closed_blobs_indexed(s: &dyn Sut, dir: &Path) -> Result<(), String> {
    let det = s.records_count_detailed().await;
    let has_active = s.has_active().await;
    let closed = if has_active { &det[..det.len().saturating_sub(1)] } else { &det[..] };
    for (id, count) in closed {
        if *count == 0 {
            continue;
        }
        let ip = sut::index_path(dir, *id);
        let bp = sut::blob_path(dir, *id);
        let ok = match (std::fs::read(&ip), bp.metadata()) {
            (Ok(ib), Ok(bm)) => crate::blobfmt::index_layout(&ib).map_or(false, |l| l.written && l.blob_size == bm.len()),
            _ => false,
        };
        if !ok {
            return Err(format!("closed blob {} holds {} records but has no complete, current index file although a dump was requested and the background machinery is idle", id, count));
        }
    }
    Ok(())
}

/// Shared dump semaphore: another storage on the same disk holds the only permit for a while; the dump requested meanwhile
/// has to happen once the permit is free.
#[derive(Clone, Debug, serde::Serialize, serde::Deserialize)]
pub struct SemCase {
    pub cfg: Cfg,
    /// closed blobs that are waiting for their dump when the permit is released
    pub blobs: u8,
    /// 0 try_close_active_blob + create, 1 close_active_blob_in_background + create, 2 rotation by overflow of an aged blob,
    /// 3 deletion markers into every closed (and already dumped) blob: several re-dumps are pending in ONE dump pass that
    ///   starts while the permit is held,
    /// 4 as 0, but the owner CLOSES the semaphore instead of holding it (no permit can be had any more): dumps still happen
    pub how: u8,
    pub hold_ms: u16,
}

fn sem_cases(thorough: bool) -> Vec<SemCase> {
    let mut v = vec![];
    for how in 0..5u8 {
        for hold_ms in if thorough { vec![0u16, 50, 150, 250, 400, 900] } else { vec![0u16, 300, 600] } {
            for blobs in if thorough { vec![1u8, 2, 4] } else { vec![1u8, 3] } {
                for rt_workers in [2usize, 0] {
                    if !thorough && rt_workers == 0 && hold_ms == 0 {
                        continue;
                    }
                    if how == 3 && blobs < 2 {
                        continue;
                    }
                    if how == 4 && hold_ms != 0 {
                        continue;
                    }
                    // how 3: the deferred dump must not start before all markers are written (it holds the blob list while it waits)
                    let defer_ms = if how == 3 { (150, 300) } else { (2, 5) };
                    v.push(SemCase { cfg: Cfg { keylen: 8, rt_workers, allow_dup: true, defer_ms, max_data_in_blob: 4, ..Cfg::default() }, blobs, how, hold_ms });
                }
            }
        }
    }
    v
}

pub fn run_sem(c: &SemCase, dir: &Path, _findings: &Findings) -> Result<CaseOut, Failure> {
    let rt = c.cfg.runtime();
    let _ = std::fs::remove_dir_all(dir);
    let res = rt.block_on(async {
        let sem = std::sync::Arc::new(tokio::sync::Semaphore::new(1));
        let mut cfg = c.cfg.clone();
        if c.how != 2 {
            cfg.max_data_in_blob = 1 << 30;
        }
        // how 3 prepares `blobs` closed blobs first (the loop below makes blobs - 1 of them)
        let prepared = if c.how == 3 { c.blobs + 1 } else { c.blobs };
        let s = match sut::open_sem(&cfg, dir, false, Some(sem.clone())).await {
            Ok(s) => s,
            Err(e) => return fail("init/err", format!("{:#}", e), 0, "init"),
        };
        let keylen = cfg.keylen;
        let mut stats = Stats::default();
        let mut n = 0u64;
        let mut put = |k: u8| {
            n += 1;
            (key_bytes(keylen, k), Bytes::from(vec![b'v'; 20]), n)
        };
        let (kb, val, ts) = put(0);
        if let Err(e) = s.write(&kb, val, ts, None).await {
            return fail("write/err", format!("{:#}", e), 0, "write");
        }
        if c.how == 2 {
            // rotation needs an active blob older than the 200 ms debounce
            tokio::time::sleep(Duration::from_millis(230)).await;
        }
        // earlier blobs are closed and dumped while the semaphore is free
        for b in 1..prepared {
            for k in 0..3u8 {
                let (kb, val, ts) = put(k);
                if let Err(e) = s.write(&kb, val, ts, None).await {
                    return fail("write/err", format!("{:#}", e), b as usize, "write");
                }
            }
            if c.how == 2 {
                for k in 0..3u8 {
                    let (kb, val, ts) = put(k);
                    let _ = s.write(&kb, val, ts, None).await;
                }
                let _ = wait_quiet(s.as_ref(), true, Duration::from_secs(60)).await;
                tokio::time::sleep(Duration::from_millis(230)).await;
            } else {
                let _ = s.try_close_active().await;
                let _ = s.try_create_active().await;
                let _ = wait_quiet(s.as_ref(), true, Duration::from_secs(60)).await;
            }
            stats.steps += 1;
        }
        // "the other storage" takes the only permit; while it is held this storage's dump task waits for it (holding the
        // storage's read lock), so the harness issues nothing that needs the write lock until the release
        let permit = if c.how == 4 {
            // the owner closes its semaphore: every later acquire fails at once
            sem.close();
            None
        } else {
            Some(sem.clone().acquire_owned().await.expect("semaphore"))
        };
        match c.how {
            3 => {
                // one marker into every closed blob (keys 0..2 live in each of them): their indexes are loaded back and one
                // deferred dump pass has to write them all again
                for k in 0..3u8 {
                    if let Err(e) = s.delete(&key_bytes(keylen, k), 1_000_000, None, true).await {
                        return fail("delete/err", format!("{:#}", e), 0, "delete");
                    }
                }
                // let the deferred dump start and run into the held semaphore
                tokio::time::sleep(Duration::from_millis(320)).await;
            }
            0 | 1 | 4 => {
                for k in 0..3u8 {
                    let (kb, val, ts) = put(k);
                    if let Err(e) = s.write(&kb, val, ts, None).await {
                        return fail("write/err", format!("{:#}", e), 0, "write");
                    }
                }
                if c.how == 0 || c.how == 4 {
                    if let Err(e) = s.try_close_active().await {
                        return fail("close_active/err", format!("{:#}", e), 0, "close");
                    }
                } else {
                    s.close_active_bg().await;
                }
            }
            _ => {
                // over-fill the aged active blob: the worker rotates it and wants to dump the old one
                for k in 0..6u8 {
                    let (kb, val, ts) = put(k % 4);
                    if let Err(e) = s.write(&kb, val, ts, None).await {
                        return fail("write/err", format!("{:#}", e), 0, "write");
                    }
                }
            }
        }
        stats.steps += 1;
        stats.writes = n;
        tokio::time::sleep(Duration::from_millis(c.hold_ms as u64)).await;
        drop(permit);
        // from now on nothing holds the semaphore: at idle every non-empty closed blob has its index file
        match wait_quiet(s.as_ref(), true, Duration::from_secs(60)).await {
            Ok(_) => {}
            Err(st) => {
                let clause = if st.worker_alive() { "bg/stall" } else { "bg/worker-dead" };
                return fail(clause, format!("after the dump semaphore was released: {:?}", st), c.blobs as usize, "release");
            }
        }
        if let Err(d) = closed_blobs_indexed(s.as_ref(), dir).await {
            return fail("bg/dump-not-completed", format!("dump semaphore held by somebody else for {} ms, then released: {}", c.hold_ms, d), c.blobs as usize, "release");
        }
        if c.how != 4 && sem.available_permits() != 1 {
            return fail("bg/dump-permit-not-returned", format!("{} permits at idle", sem.available_permits()), c.blobs as usize, "release");
        }
        match tokio::time::timeout(Duration::from_secs(120), s.close()).await {
            Ok(Ok(())) => {}
            Ok(Err(e)) => return fail("close/err", format!("{:#}", e), c.blobs as usize, "close"),
            Err(_) => return Err(Failure { clause: "harness/timeout".into(), detail: "close() did not return within 120 s".into(), step: 0, op: "close".into() }),
        }
        let mut labels = BTreeSet::new();
        labels.insert(format!("sem_how_{}", c.how));
        Ok(CaseOut { nontrivial: c.hold_ms >= 250, labels, stats, known_hits: Default::default(), weight: 1 })
    });
    drop(rt);
    res
}

fn sample_sem(c: &SemCase) -> Value {
    json!({"rt_workers": c.cfg.rt_workers, "closed_blobs_waiting": c.blobs, "how(0 try_close,1 bg close,2 overflow rotation,3 markers into all closed blobs)": c.how, "permit_held_ms": c.hold_ms})
}

/// A steady stream of dump-deferring requests: deletion markers go into a closed, already indexed blob with gaps shorter than
/// the deferred-dump minimum, for longer than the deferred-dump maximum. The maximum waiting time (Builder::
/// set_deferred_index_dump_times) bounds how long a requested dump may be put off: the index has to be written again WHILE
/// the stream lasts. The stream only ends when that happened (pass) or after ten times the maximum plus three seconds.
#[derive(Clone, Debug, serde::Serialize, serde::Deserialize)]
pub struct StreamCase {
    pub cfg: Cfg,
    pub gap_ms: u8,
    /// a rotation is requested in the middle of the stream as well (its dump attaches to the pending deferred one)
    pub switch_inside: bool,
}

fn stream_cases(thorough: bool) -> Vec<StreamCase> {
    let mut v = vec![];
    for (min, max) in if thorough { vec![(150u64, 450u64), (250, 500), (120, 900)] } else { vec![(150u64, 450u64)] } {
        for gap_ms in if thorough { vec![3u8, 10, 25] } else { vec![5u8, 15] } {
            for rt_workers in [2usize, 0] {
                for switch_inside in [false, true] {
                    v.push(StreamCase { cfg: Cfg { keylen: 8, rt_workers, allow_dup: true, defer_ms: (min, max), ..Cfg::default() }, gap_ms, switch_inside });
                }
            }
        }
    }
    v
}

pub fn run_stream(c: &StreamCase, dir: &Path, _findings: &Findings) -> Result<CaseOut, Failure> {
    let rt = c.cfg.runtime();
    let _ = std::fs::remove_dir_all(dir);
    let res = rt.block_on(async {
        let s = match sut::open(&c.cfg, dir, false).await {
            Ok(s) => s,
            Err(e) => return fail("init/err", format!("{:#}", e), 0, "init"),
        };
        let mut stats = Stats::default();
        let (min, max) = c.cfg.defer_ms;
        let limit = Duration::from_millis(max * 10 + 3000);
        let n = (limit.as_millis() as u64 / c.gap_ms.max(1) as u64 + 50) as u32;
        let key = |i: u32| (i as u64 + 1).to_be_bytes().to_vec();
        for i in 0..n.min(4000) {
            if let Err(e) = s.write(&key(i), Bytes::from(vec![b's'; 12]), 1, None).await {
                return fail("write/err", format!("{:#}", e), 0, "write");
            }
            stats.writes += 1;
        }
        if let Err(e) = s.try_close_active().await {
            return fail("close_active/err", format!("{:#}", e), 0, "close");
        }
        let _ = s.try_create_active().await;
        if let Err(st) = wait_quiet(s.as_ref(), true, Duration::from_secs(60)).await {
            return fail("bg/stall", format!("before the stream: {:?}", st), 0, "wait");
        }
        let ip = sut::index_path(dir, 0);
        let count_of = |p: &Path| std::fs::read(p).ok().and_then(|b| crate::blobfmt::index_layout(&b)).filter(|l| l.written).map(|l| l.records_count);
        let base = match count_of(&ip) {
            Some(c0) => c0,
            None => return fail("bg/dump-not-completed", "closed blob 0 has no complete index file at idle".into(), 0, "wait"),
        };
        // the stream
        let t0 = std::time::Instant::now();
        let mut sent = 0u32;
        let mut worst_gap = Duration::ZERO;
        let mut last = t0;
        let mut redumped_after: Option<Duration> = None;
        while t0.elapsed() < limit && sent < n.min(4000) {
            match s.delete(&key(sent), 5, None, true).await {
                Ok(_) => {}
                Err(e) => return fail("delete/err", format!("{:#}", e), sent as usize, "delete"),
            }
            sent += 1;
            stats.deletes += 1;
            if c.switch_inside && sent == 12 {
                let _ = s.try_close_active().await;
                let _ = s.try_create_active().await;
            }
            let now = std::time::Instant::now();
            worst_gap = worst_gap.max(now - last);
            last = now;
            if count_of(&ip).map_or(false, |c1| c1 > base) {
                redumped_after = Some(t0.elapsed());
                break;
            }
            tokio::time::sleep(Duration::from_millis(c.gap_ms as u64)).await;
        }
        let mut labels = BTreeSet::new();
        labels.insert(format!("stream_gap_{}ms", c.gap_ms));
        let streamed = t0.elapsed();
        if redumped_after.is_none() {
            // only a stream whose gaps stayed below the minimum for the whole time says anything about the maximum
            if worst_gap < Duration::from_millis(min) && streamed >= limit {
                return fail("bg/deferred-dump-starved", format!("{} deletion markers went into closed blob 0 over {:?} (largest gap {:?}, deferred-dump times {} / {} ms) and its index file was never written again while the stream lasted", sent, streamed, worst_gap, min, max), sent as usize, "stream");
            }
            labels.insert("stream_inconclusive".to_string());
        } else {
            labels.insert("redumped_during_stream".to_string());
        }
        match wait_quiet(s.as_ref(), true, Duration::from_secs(60)).await {
            Ok(_) => {}
            Err(st) => {
                let clause = if st.worker_alive() { "bg/stall" } else { "bg/worker-dead" };
                return fail(clause, format!("after the stream: {:?}", st), sent as usize, "wait");
            }
        }
        if let Err(d) = closed_blobs_indexed(s.as_ref(), dir).await {
            return fail("bg/dump-not-completed", d, sent as usize, "wait");
        }
        match tokio::time::timeout(Duration::from_secs(120), s.close()).await {
            Ok(Ok(())) => {}
            Ok(Err(e)) => return fail("close/err", format!("{:#}", e), sent as usize, "close"),
            Err(_) => return Err(Failure { clause: "harness/timeout".into(), detail: "close() did not return within 120 s".into(), step: 0, op: "close".into() }),
        }
        Ok(CaseOut { nontrivial: redumped_after.map_or(false, |d| d >= Duration::from_millis(min)) && sent >= 3, labels, stats, known_hits: Default::default(), weight: 1 })
    });
    drop(rt);
    res
}

fn sample_stream(c: &StreamCase) -> Value {
    json!({"rt_workers": c.cfg.rt_workers, "deferred_dump_min_max_ms": c.cfg.defer_ms, "gap_between_markers_ms": c.gap_ms, "rotation_inside_stream": c.switch_inside})
}

pub fn run_live(c: &Case, dir: &Path, _findings: &Findings) -> Result<CaseOut, Failure> {
    let rt = c.cfg.runtime();
    let _ = std::fs::remove_dir_all(dir);
    let res = rt.block_on(async {
        let mut labels = BTreeSet::new();
        let mut stats = Stats::default();
        let mut s = match sut::open(&c.cfg, dir, false).await {
            Ok(s) => s,
            Err(e) => return fail("init/err", format!("{:#}", e), 0, "init"),
        };
        for (i, op) in c.ops.iter().enumerate() {
            stats.steps += 1;
            if let Op::Reopen { lazy, .. } = op {
                let _ = wait_quiet(s.as_ref(), false, Duration::from_secs(60)).await;
                if let Err(e) = s.close().await {
                    return fail("close/err", format!("{:#}", e), i, "reopen");
                }
                s = match sut::open(&c.cfg, dir, *lazy).await {
                    Ok(s) => s,
                    Err(e) => return fail("init/err", format!("{:#}", e), i, "reopen"),
                };
                stats.reopens += 1;
                continue;
            }
            blind(&mut s, &c.cfg, i, op, &mut labels).await;
            // every call that requests an index dump: once the background machinery is idle, every non-empty closed
            // blob has a complete, current index file (the dump task covers all closed blobs)
            // (not after the slow predicate: the point of it is that the next calls overlap with the busy worker)
            if matches!(op, Op::CloseActive | Op::Switch | Op::BgClose | Op::ForceUpdate(_) | Op::Free) && !matches!(op, Op::ForceUpdate(Pred::SlowNever)) {
                match wait_quiet(s.as_ref(), true, Duration::from_secs(60)).await {
                    Ok(_) => {}
                    Err(st) => {
                        let clause = if st.worker_alive() { "bg/stall" } else { "bg/worker-dead" };
                        return fail(clause, format!("after a dump request: {:?}", st), i, &format!("{:?}", op));
                    }
                }
                if let Err(d) = closed_blobs_indexed(s.as_ref(), dir).await {
                    return fail("bg/dump-not-completed", d, i, &format!("{:?}", op));
                }
                stats.queries += 1;
                labels.insert("dump_request_checked".into());
            }
        }
        // ---- the probe -------------------------------------------------------------------------
        let step = c.ops.len();
        let keylen = c.cfg.keylen;
        // background requests of the history are asynchronous: let them finish, so that the probe's own writes
        // do not race a close request (a write racing a manual close may legitimately see ActiveBlobNotSet)
        if let Err(st) = wait_quiet(s.as_ref(), false, Duration::from_secs(60)).await {
            let clause = if st.worker_alive() { "bg/stall" } else { "bg/worker-dead" };
            return fail(clause, format!("after the history: {:?}", st), step, "probe");
        }
        // make sure an active blob exists and is older than the 200 ms rotation debounce
        if let Err(e) = s.write(&key_bytes(keylen, 0), Bytes::from_static(b"probe-0"), 7, None).await {
            return fail("probe/write-err", format!("{:#}", e), step, "probe");
        }
        if let Err(st) = wait_quiet(s.as_ref(), true, Duration::from_secs(60)).await {
            let clause = if st.worker_alive() { "bg/stall" } else { "bg/worker-dead" };
            return fail(clause, format!("before the overflow: {:?}", st), step, "probe");
        }
        tokio::time::sleep(Duration::from_millis(230)).await;
        let id_before = s.next_blob_id();
        let blobs_before = s.blobs_count().await;
        let by_count = c.cfg.max_data_in_blob < 1_000;
        let n = if by_count { c.cfg.max_data_in_blob + 1 } else { c.cfg.max_blob_size / 70 + 2 };
        for i in 0..n {
            stats.writes += 1;
            if let Err(e) = s.write(&key_bytes(keylen, (i % 4) as u8), Bytes::from(vec![b'x'; 24]), 100 + i, None).await {
                return fail("probe/write-err", format!("{:#}", e), step, "probe");
            }
        }
        match wait_quiet(s.as_ref(), true, Duration::from_secs(60)).await {
            Ok(_) => {}
            Err(st) => {
                let clause = if st.worker_alive() { "bg/stall" } else { "bg/worker-dead" };
                return fail(clause, format!("after the overflow: {:?}", st), step, "probe");
            }
        }
        let st = s.bg();
        if !st.worker_alive() {
            return fail("bg/worker-dead", format!("{:?}", st), step, "probe");
        }
        let id_after = s.next_blob_id();
        let blobs_after = s.blobs_count().await;
        if id_after <= id_before || blobs_after <= blobs_before {
            return fail("bg/no-rotation", format!("the active blob was filled beyond its limit ({} writes, limit {} {}) but no switch happened: next_blob_id {} -> {}, blobs_count {} -> {}", n, if by_count { c.cfg.max_data_in_blob } else { c.cfg.max_blob_size }, if by_count { "records" } else { "bytes" }, id_before, id_after, blobs_before, blobs_after), step, "probe");
        }
        stats.queries += 3;
        // requested dumps completed: every non-empty closed blob has an index file describing its current size
        let det = s.records_count_detailed().await;
        let has_active = s.has_active().await;
        let closed = if has_active { &det[..det.len().saturating_sub(1)] } else { &det[..] };
        for (id, count) in closed {
            if *count == 0 {
                continue;
            }
            stats.queries += 1;
            let ip = sut::index_path(dir, *id);
            let bp = sut::blob_path(dir, *id);
            let ok = match (std::fs::read(&ip), bp.metadata()) {
                (Ok(ib), Ok(bm)) => crate::blobfmt::index_layout(&ib).map_or(false, |l| l.written && l.blob_size == bm.len()),
                _ => false,
            };
            if !ok {
                return fail("bg/dump-not-completed", format!("closed blob {} holds {} records but has no complete, current index file although the background machinery is idle", id, count), step, "probe");
            }
        }
        // close terminates
        match tokio::time::timeout(Duration::from_secs(120), s.close()).await {
            Ok(Ok(())) => {}
            Ok(Err(e)) => return fail("close/err", format!("{:#}", e), step, "close"),
            Err(_) => {
                println!("INCONCLUSIVE property=C13 close() did not return within 120 s");
                std::process::exit(2);
            }
        }
        let nontrivial = labels.contains("bg_inapplicable");
        Ok(CaseOut { nontrivial, labels, stats, known_hits: Default::default(), weight: 1 })
    });
    drop(rt);
    res
}

fn sample(c: &Case) -> Value {
    json!({"cfg": format!("keylen={} max_data_in_blob={} max_blob_size={} rt_workers={}", c.cfg.keylen, c.cfg.max_data_in_blob, c.cfg.max_blob_size, c.cfg.rt_workers), "ops": render_ops(&c.ops), "probe": "wait 230 ms, overflow the active blob, wait idle, check rotation + index files, close"})
}

pub fn run(ctx: &RunCtx) -> PropResult {
    let mut report = Report::default();
    let findings = ctx.findings.clone();
    let runf = |c: &Case, d: &Path| run_live(c, d, &findings);
    run_replays::<Case, _>(ctx, "live", &ctx.verif_dir.join("replays").join("C13"), runf, &mut report);
    let runf = |c: &Case, d: &Path| run_live(c, d, &findings);
    run_generated(ctx, "live", ctx.tier.pick(640, 20_000), live_strategy, runf, &sample, &mut report);
    let runf = |c: &SemCase, d: &Path| run_sem(c, d, &findings);
    run_enumerated(ctx, "live-dumpsem", sem_cases(ctx.tier == Tier::Thorough), runf, &sample_sem, &mut report);
    let runf = |c: &StreamCase, d: &Path| run_stream(c, d, &findings);
    run_enumerated(ctx, "live-stream", stream_cases(ctx.tier == Tier::Thorough), runf, &sample_stream, &mut report);
    PropResult {
        report,
        level: "exploration",
        rule: "proptest sequences over all public calls (create_/close_/restore_active_blob_in_background in every active-blob state, try_* variants, force_update with four predicates plus a slow one (8 ms, longer than the deferred-dump times; spliced as delete - slow predicate - delete so that the worker is late for a pending deferred dump while the next deferring request is already queued), data ops, offload, fsync, free, restarts) with a record limit of 3-11 or a byte limit of a few hundred bytes and 2-5 ms deferred dumps; then the probe: make sure an active blob exists, wait 230 ms (the rotation debounce is 200 ms of blob age), write limit+1 records, wait until the background machinery is idle (H3 probe). Oracle at idle: the worker task is alive, next_blob_id and blobs_count advanced (a switch happened), every non-empty closed blob has an index file with the written flag and its current blob size (requested dumps completed), close() returns Ok. Idle means nothing is pending, so a missing switch is definite, not a timing guess. An enumerated phase (live-dumpsem) gives the storage a caller-owned one-permit dump semaphore (Builder::set_dump_sem), lets 'another storage' hold the permit for 0-900 ms while a blob is closed (try_close, background close, or rotation by overflow) or while deletion markers make several closed blobs wait for one re-dump pass and requires every requested dump to have happened at idle after the release, and the permit to be back. A third enumerated phase (live-stream) sends deletion markers into a closed, indexed blob with gaps (3-25 ms) below the deferred-dump minimum (120-250 ms) for up to ten times the maximum (450-900 ms) plus 3 s, optionally with a rotation inside the stream, and requires the blob's index file to be written again WHILE the stream lasts (the maximum waiting time bounds the deferral); a stream whose largest gap reached the minimum is counted as inconclusive, not judged. Non-trivial = the sequence contains a background request that could not apply in its state (live); the permit was held for >= 250 ms (live-dumpsem); the re-dump came after at least the minimum time of streaming (live-stream). distinct = FNV hash of the serialized case.".into(),
        assumptions: {
            let mut a = common_assumptions();
            a.push("a close() that does not return within 120 s ends the run as inconclusive (exit 2), never as a violation".into());
            a
        },
    }
}

pub fn replay_other(phase: &str, case: &Value, dir: &Path, findings: &Findings) -> Option<Result<CaseOut, Failure>> {
    if phase == "live" {
        let runf = |c: &Case, d: &Path| run_live(c, d, findings);
        serde_json::from_value::<Case>(case.clone()).ok().map(|c| guarded(&c, dir, &runf))
    } else if phase == "live-dumpsem" {
        let runf = |c: &SemCase, d: &Path| run_sem(c, d, findings);
        serde_json::from_value::<SemCase>(case.clone()).ok().map(|c| guarded(&c, dir, &runf))
    } else if phase == "live-stream" {
        let runf = |c: &StreamCase, d: &Path| run_stream(c, d, findings);
        serde_json::from_value::<StreamCase>(case.clone()).ok().map(|c| guarded(&c, dir, &runf))
    } else {
        None
    }
}
