//! C01 Latest-version read: read/contains return the top-ranked record of a key.
use super::history::*;
use super::{common_assumptions, PropResult};
use crate::interp::Checks;
use crate::ops::GenParams;
use crate::runner::*;
use crate::sut::KEY_LENS;
use std::collections::BTreeSet;

fn nt(l: &BTreeSet<String>) -> bool {
    has(l, "tie_cross_blob") || has(l, "ge5_versions_one_blob") || has(l, "marker_below_max")
}

pub fn profile() -> Profile {
    Profile {
        id: "C01",
        phase: "history",
        checks: Checks { read: true, ..Default::default() },
        gen: GenParams { nkeys: 5, ts_span: 5, metas: 4, max_ops: 60, ..Default::default() },
        keylens: KEY_LENS,
        short_defer: true,
        nt,
    }
}

pub fn run(ctx: &RunCtx) -> PropResult {
    let mut report = Report::default();
    let p = profile();
    run_profile(ctx, &p, ctx.tier.pick(6000, 100_000), &mut report);
    {
        // long histories over two keys: many versions per blob (binary-search insertion path, lists longer than an index block), heavy ties
        let mut p2 = profile();
        p2.phase = "history-deep";
        p2.gen = GenParams { nkeys: 2, ts_span: 3, metas: 2, max_ops: ctx.tier.pick(110, 200) as usize, w_write: 60, w_delete: 15, w_switch: 6, w_wait: 3, w_reopen: 3, ..Default::default() };
        run_profile(ctx, &p2, ctx.tier.pick(500, 15_000), &mut report);
    }
    {
        // scale: >256 versions of a key in one blob with long runs of equal timestamps; >64 blobs with the top-ranked record in one of the oldest
        let mut p3 = profile();
        p3.phase = "history-scale";
        p3.gen = GenParams { nkeys: 3, ts_span: 4, metas: 2, max_ops: 12, w_write: 40, w_delete: 25, w_switch: 10, w_wait: 5, w_reopen: 12, ..Default::default() };
        run_profile_scale(ctx, &p3, ctx.tier.pick(48, 1500), &mut report);
    }
    PropResult {
        report,
        level: "exploration",
        rule: "proptest histories (vec of write/write_with/delete/delete_with/switch/wait-idle/reopen eager|lazy with or without index files; 5-key pool, timestamps 0..5 plus u64::MAX and MAX-1; generated key length, bloom config, group size, duplicate policy, runtime flavour) run against a real Storage and the flat-rank reference model; read and contains compared for every pool key and one never-written key after EVERY step. Non-trivial = the final model state has a key with two equal-timestamp records in different blobs, or >=5 versions of one key in one blob, or a deletion marker whose timestamp is below the key's maximum. distinct = FNV hash of the serialized case.".into(),
        assumptions: common_assumptions(),
    }
}
