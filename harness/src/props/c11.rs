//! C11 I/O fault containment: a failed file operation loses and corrupts nothing else.
use super::{common_assumptions, PropResult};
use crate::findings::Findings;
use crate::interp::{Checks, Exec, Failure};
use crate::ops::*;
use crate::runner::*;
use crate::sut::{self, wait_quiet, Cfg};
use pearl::verif::io as vio;
use proptest::prelude::*;
use serde_json::{json, Value};
use std::collections::{BTreeMap, BTreeSet};
use std::path::{Path, PathBuf};
use std::time::Duration;

pub fn fault_strategy() -> BoxedStrategy<Case> {
    let gen = GenParams { nkeys: 4, ts_span: 4, metas: 3, max_ops: 36, w_write: 44, w_delete: 12, w_switch: 10, w_wait: 8, w_reopen: 5, w_lifecycle: 10, w_maint: 4, vlen: VlenGen::Thresholds, ..Default::default() };
    let kind = prop_oneof![1 => Just(FailKind::Create), 1 => Just(FailKind::Open), 4 => Just(FailKind::Write), 2 => Just(FailKind::Sync)];
    let fail = (kind, prop::bool::weighted(0.4), 1u16..6, any::<bool>(), prop_oneof![2 => Just(None), 1 => (0u16..80).prop_map(Some), 1 => (80u16..5000).prop_map(Some)]).prop_map(|(kind, on_index, nth, eio, short)| {
        let short = if kind == FailKind::Write { short } else { None };
        Op::Fail { kind, on_index, nth, eio, short }
    });
    let op = prop_oneof![14 => op_strategy(&gen), 2 => fail];
    let cfg = cfg_strategy(&[8, 33], true).prop_map(|mut c| {
        c.allow_dup = true;
        c
    });
    (cfg, prop::collection::vec(op, 1..gen.max_ops)).prop_map(|(cfg, ops)| Case { cfg, ops }).boxed()
}

fn fired(session: &vio::Session) -> u64 {
    session.failpoints().iter().map(|f| f.fired).sum()
}

fn snapshot_blobs(dir: &Path) -> BTreeMap<PathBuf, Vec<u8>> {
    let mut m = BTreeMap::new();
    for (_, is_idx, p) in sut::list_files(dir) {
        if !is_idx {
            if let Ok(b) = std::fs::read(&p) {
                m.insert(p, b);
            }
        }
    }
    m
}

/// Brings the model's blob structure in line with what the storage reports after an operation that
/// was hit by a fault and may have been applied partially (which blobs are closed, whether one is active).
async fn reconcile_structure(ex: &mut Exec<'_>) {
    let det = ex.s().records_count_detailed().await;
    let has_active = ex.s().has_active().await;
    let n_closed = if has_active { det.len().saturating_sub(1) } else { det.len() };
    let closed: Vec<usize> = det.iter().take(n_closed).map(|x| x.0).collect();
    let known = ex.model.present();
    // a blob the model does not know yet (created by a partially applied call)
    let mut active = None;
    if has_active {
        active = known.iter().copied().find(|b| !closed.contains(b));
        if active.is_none() {
            let id = ex.s().next_blob_id().saturating_sub(1);
            ex.model.blobs.entry(id).or_default();
            ex.model.note_id(id);
            active = Some(id);
        }
    }
    for id in &closed {
        ex.model.blobs.entry(*id).or_default();
    }
    ex.model.closed = closed;
    ex.model.active = active;
    ex.model.next_id = ex.s().next_blob_id();
}

pub fn run_fault(c: &Case, dir: &Path, findings: &Findings) -> Result<CaseOut, Failure> {
    let rt = c.cfg.runtime();
    let _ = std::fs::remove_dir_all(dir);
    let session = vio::start_session(dir);
    let nkeys = 4u8;
    let res = rt.block_on(async {
        let mut ex = Exec::new(c.cfg.clone(), dir.to_path_buf(), Checks { read: true, versions: true, ..Default::default() }, nkeys, 3, findings);
        ex.start().await?;
        let mut labels: BTreeSet<String> = BTreeSet::new();
        // keys whose state became ambiguous because a delete was hit by a fault (it may be applied in some blobs only)
        let mut tainted: BTreeSet<u8> = BTreeSet::new();
        let mut faulted_ops = 0u32;
        // keys with a failed write whose bytes may sit in a blob file; they become `phantom` at the next restart
        let mut failed_writes: BTreeSet<u8> = BTreeSet::new();
        let mut phantom: BTreeSet<u8> = BTreeSet::new();
        for (i, op) in c.ops.iter().enumerate() {
            ex.step = i;
            match op {
                Op::Fail { kind, on_index, nth, eio, short } => {
                    let k = match kind {
                        FailKind::Create => vio::Kind::Create,
                        FailKind::Open => vio::Kind::Open,
                        FailKind::Write => vio::Kind::Write,
                        FailKind::Sync => vio::Kind::Sync,
                    };
                    session.disarm_all();
                    session.arm(vio::Failpoint { kind: k, ext: if *on_index { "index".into() } else { "blob".into() }, nth: *nth as u64, errno: if *eio { libc::EIO } else { libc::ENOSPC }, short: short.map(|s| s as u64), sticky: false, seen: 0, fired: 0 });
                    continue;
                }
                Op::Reopen { lazy, remove_all_idx, damage } => {
                    // restarts happen after the fault has cleared; close() itself may still report the fault's aftermath
                    let _ = wait_quiet(ex.s(), false, crate::interp::max_wait()).await;
                    session.disarm_all();
                    restart(&mut ex, dir, *lazy, *remove_all_idx, damage, &mut labels).await?;
                    phantom.extend(failed_writes.iter().copied());
                }
                _ => {
                    let before = fired(&session);
                    let saved = ex.model.clone();
                    // a key whose state is ambiguous (faulted delete): its delete counts cannot be predicted
                    // (the same holds once a failed write of that key may have been resurrected by a restart)
                    let on_tainted = matches!(op, Op::Delete { key, .. } if tainted.contains(key) || phantom.contains(key));
                    if let Op::Delete { key, .. } = op {
                        if phantom.contains(key) && findings.is_open(PHANTOM) {
                            tainted.insert(*key);
                        }
                    }
                    ex.checks.versions = !on_tainted;
                    let r = ex.apply(i, op).await;
                    ex.checks.versions = true;
                    // background work triggered by the call (dumps) may hit the fault as well: let it finish
                    let _ = wait_quiet(ex.s(), false, crate::interp::max_wait()).await;
                    let hit = fired(&session) > before;
                    match (r, hit) {
                        (Ok(()), false) => {
                            // open finding: a failed write resurrected by an index regeneration is a record pearl counts
                            // and the model does not - calls that depend on record counts (force_update predicates)
                            // may take another branch; only the blob structure is re-aligned, data answers stay judged
                            if !phantom.is_empty() && ex.known(PHANTOM) {
                                reconcile_structure(&mut ex).await;
                            }
                        }
                        (Err(f), false) => return Err(f),
                        (r, true) => {
                            faulted_ops += 1;
                            labels.insert("fault_fired".into());
                            labels.insert(format!("fault_in_{}", op.name()));
                            match op {
                                Op::Write { key, .. } => {
                                    if r.is_err() {
                                        failed_writes.insert(*key);
                                        // reported as failed: must never be served as if it had succeeded
                                        ex.model = saved;
                                        labels.insert("write_reported_error".into());
                                    }
                                }
                                Op::Delete { key, .. } => {
                                    ex.model = saved;
                                    if matches!(&r, Err(f) if f.clause == "delete/err") {
                                        // the call itself reported failure: the active blob is marked first, so nothing was applied;
                                        // the key keeps being compared (a marker that reached a file may show after a restart)
                                        failed_writes.insert(*key);
                                        labels.insert("delete_reported_error".into());
                                    } else {
                                        // acknowledged, but a marker for a closed blob may have failed (logged, not reported)
                                        tainted.insert(*key);
                                    }
                                }
                                _ => {
                                    if r.is_err() {
                                        ex.model = saved;
                                    }
                                    reconcile_structure(&mut ex).await;
                                }
                            }
                            // a write may have created the active blob before failing
                            if matches!(op, Op::Write { .. } | Op::Delete { .. }) {
                                reconcile_structure(&mut ex).await;
                            }
                        }
                    }
                }
            }
            if std::env::var("VERIF_TRACE").is_ok() {
                let det = ex.s().records_count_detailed().await;
                eprintln!("[trace] step {} {:?}: model closed {:?} active {:?} next {} counts {:?} | pearl detailed {:?} has_active {} next {}", i, op, ex.model.closed, ex.model.active, ex.model.next_id, ex.model.present().iter().map(|b| ex.model.count_of(*b)).collect::<Vec<_>>(), det, ex.s().has_active().await, ex.s().next_blob_id());
            }
            check_untainted(&mut ex, &mut tainted, &phantom, nkeys).await?;
        }
        // the fault clears: service resumes
        let _ = wait_quiet(ex.s(), false, crate::interp::max_wait()).await;
        session.disarm_all();
        ex.step = c.ops.len();
        ex.cur_op = "after-fault".into();
        for k in 0..nkeys {
            let op = Op::Write { key: k, ts: 3, meta: 0, vlen: 9, fill: 0 };
            ex.apply(c.ops.len() + k as usize, &op).await.map_err(|mut f| {
                f.clause = format!("after-fault/{}", f.clause);
                f
            })?;
        }
        let d = Op::Delete { key: 0, ts: 4, meta: 0, only_if: false };
        if !tainted.contains(&0) && !phantom.contains(&0) {
            ex.apply(c.ops.len() + 10, &d).await.map_err(|mut f| {
                f.clause = format!("after-fault/{}", f.clause);
                f
            })?;
        }
        check_untainted(&mut ex, &mut tainted, &phantom, nkeys).await?;
        match wait_quiet(ex.s(), ex.cfg.deferred_short(), crate::interp::max_wait()).await {
            Ok(_) => {}
            Err(st) => {
                let clause = if st.worker_alive() { "bg/stall" } else { "bg/worker-dead" };
                return ex.fail(clause, format!("{:?}", st));
            }
        }
        restart(&mut ex, dir, false, false, &[], &mut labels).await?;
        phantom.extend(failed_writes.iter().copied());
        check_untainted(&mut ex, &mut tainted, &phantom, nkeys).await?;
        let _ = ex.close().await;
        for l in ex.labels.iter() {
            labels.insert(l.to_string());
        }
        Ok(CaseOut { nontrivial: faulted_ops > 0, labels, stats: ex.stats.clone(), known_hits: ex.known_hits.clone(), weight: 1 })
    });
    vio::end_session(dir);
    drop(rt);
    res
}

pub const PHANTOM: &str = "fault/failed-write-resurrected-after-index-regeneration";

/// `phantom`: keys with a write that returned Err after (part of) its bytes had reached the blob file, followed by a restart
async fn check_untainted(ex: &mut Exec<'_>, tainted: &mut BTreeSet<u8>, phantom: &BTreeSet<u8>, nkeys: u8) -> Result<(), Failure> {
    for key in 0..=nkeys {
        if tainted.contains(&key) {
            continue;
        }
        let r = match ex.check_read(key).await {
            Ok(()) => ex.check_versions(key).await,
            Err(f) => Err(f),
        };
        if let Err(f) = r {
            if phantom.contains(&key) && ex.known(PHANTOM) {
                tainted.insert(key);
                continue;
            }
            return Err(f);
        }
    }
    Ok(())
}

/// close (errors tolerated: the close may report the aftermath of the fault), then init. Every blob the
/// model holds must afterwards be served, or sit byte-identical in the corrupted dir.
async fn restart(ex: &mut Exec<'_>, dir: &Path, lazy: bool, remove_all_idx: bool, damage: &[Damage], labels: &mut BTreeSet<String>) -> Result<(), Failure> {
    if let Some(s) = ex.sut.take() {
        if s.close().await.is_err() {
            labels.insert("close_reported_error".into());
        }
    }
    ex.stats.reopens += 1;
    let before = snapshot_blobs(dir);
    if remove_all_idx {
        for (_, is_idx, p) in sut::list_files(dir) {
            if is_idx {
                let _ = std::fs::remove_file(p);
            }
        }
    }
    for d in damage {
        let _ = crate::damage::apply_index_damage(dir, d, ex.cfg.keylen);
    }
    ex.open(lazy).await?;
    labels.insert("restart".into());
    // which blobs were quarantined?
    let corrupted = dir.join("corrupted");
    let max_seen = before.keys().filter_map(|p| sut::list_files(dir).iter().find(|(_, _, q)| q == p).map(|x| x.0)).max();
    let _ = max_seen;
    let mut all_ids: Vec<usize> = vec![];
    for (p, bytes) in &before {
        let name = p.file_name().unwrap();
        let id: usize = name.to_str().and_then(|n| n.split('.').nth(1)).and_then(|x| x.parse().ok()).unwrap_or(0);
        all_ids.push(id);
        if !p.exists() {
            let q = corrupted.join(name);
            match std::fs::read(&q) {
                Ok(b) if &b == bytes => {
                    labels.insert("quarantined_intact".into());
                    if ex.model.blobs.contains_key(&id) {
                        ex.model.quarantine(id);
                    }
                }
                Ok(_) => return ex.fail("fault/quarantined-not-intact", format!("{} was moved to the corrupted dir with different bytes", p.display())),
                Err(_) => return ex.fail("fault/blob-file-lost", format!("{} disappeared", p.display())),
            }
        } else if !ex.model.present().contains(&id) {
            // a blob file the model does not track (created by a call that then failed): it holds no acknowledged record
            ex.model.blobs.insert(id, vec![]);
            ex.model.closed.push(id);
            ex.model.note_id(id);
        }
    }
    // ids of files in the corrupted dir are never handed out again
    for (id, is_idx, _) in sut::list_files(&corrupted) {
        if !is_idx {
            all_ids.push(id);
        }
    }
    let floor = all_ids.iter().max().map_or(0, |m| m + 1);
    ex.model.restart_ext(lazy, !before.is_empty(), floor);
    Ok(())
}

fn sample(c: &Case) -> Value {
    json!({"cfg": format!("keylen={} defer_ms={:?} rt_workers={}", c.cfg.keylen, c.cfg.defer_ms, c.cfg.rt_workers), "ops": render_ops(&c.ops)})
}

/// Fault enumeration: the same history with the n-th operation of a kind failing, for every n the fault-free run performs
fn enumerated(thorough: bool) -> Vec<Case> {
    let mut out = vec![];
    let base = |keylen: usize, rt_workers: usize, fail: Op, reopen_first: bool| -> Case {
        let mut ops = vec![];
        for i in 0..6u32 {
            ops.push(Op::Write { key: (i % 4) as u8, ts: (i % 3) as u64, meta: (i % 3) as u8, vlen: if i == 4 { vlen_rel(1, 2) } else { 20 + i }, fill: 0 });
        }
        ops.push(Op::Switch);
        ops.push(Op::WaitIdle);
        if reopen_first {
            // the active blob is then a reopened one (opened in append mode)
            ops.push(Op::Write { key: 1, ts: 1, meta: 0, vlen: 30, fill: 0 });
            ops.push(Op::Reopen { lazy: false, remove_all_idx: false, damage: vec![] });
        }
        ops.push(fail);
        for i in 0..5u32 {
            ops.push(Op::Write { key: (i % 4) as u8, ts: (i % 4) as u64, meta: 0, vlen: if i == 2 { 5000 } else { 25 + i }, fill: 0 });
        }
        ops.push(Op::Delete { key: 2, ts: 2, meta: 0, only_if: false });
        ops.push(Op::Switch);
        ops.push(Op::WaitIdle);
        ops.push(Op::Write { key: 3, ts: 3, meta: 0, vlen: 40, fill: 0 });
        ops.push(Op::CloseActive);
        ops.push(Op::Restore);
        ops.push(Op::Write { key: 0, ts: 3, meta: 1, vlen: 41, fill: 0 });
        Case { cfg: Cfg { keylen, rt_workers, allow_dup: true, defer_ms: (2, 5), ..Cfg::default() }, ops }
    };
    let kinds = [(FailKind::Write, false, 14u16), (FailKind::Write, true, 8), (FailKind::Sync, false, 10), (FailKind::Sync, true, 5), (FailKind::Create, false, 4), (FailKind::Create, true, 4), (FailKind::Open, false, 3), (FailKind::Open, true, 3)];
    for (kind, on_index, max_n) in kinds {
        for nth in 1..=max_n {
            for reopen_first in [false, true] {
                let shorts: Vec<Option<u16>> = if kind == FailKind::Write { if thorough { vec![None, Some(1), Some(30), Some(70), Some(4000)] } else { vec![None, Some(30)] } } else { vec![None] };
                for short in shorts {
                    out.push(base(8, if thorough && nth % 2 == 0 { 0 } else { 2 }, Op::Fail { kind: kind.clone(), on_index, nth, eio: nth % 2 == 0, short }, reopen_first));
                }
            }
        }
    }
    out
}

/// "keeps rotating blobs": a fault hits the background rotation of a full, aged active blob (create / header write / header
/// sync of the next blob, or the record write that fills the blob); after the fault has cleared, the next writes must get the
/// blob rotated, and rotation must go on afterwards.
#[derive(Clone, Debug, serde::Serialize, serde::Deserialize)]
pub struct RotCase {
    pub cfg: Cfg,
    pub kind: FailKind,
    pub nth: u16,
    pub eio: bool,
    pub short: Option<u16>,
    /// limit by record count (else by size)
    pub by_count: bool,
}

fn rot_cases(thorough: bool) -> Vec<RotCase> {
    let mut v = vec![];
    for by_count in [true, false] {
        for rt_workers in if thorough { vec![2usize, 0] } else { vec![2usize] } {
            let mut kinds: Vec<(FailKind, u16, Option<u16>)> = vec![(FailKind::Create, 1, None), (FailKind::Sync, 1, None), (FailKind::Write, 1, None), (FailKind::Write, 2, None), (FailKind::Write, 2, Some(7)), (FailKind::Write, 2, Some(19))];
            if thorough {
                kinds.extend([(FailKind::Create, 2, None), (FailKind::Sync, 2, None), (FailKind::Write, 3, None), (FailKind::Write, 1, Some(30)), (FailKind::Write, 2, Some(0)), (FailKind::Open, 1, None)]);
            }
            for (kind, nth, short) in kinds {
                let mut cfg = Cfg { keylen: 8, rt_workers, allow_dup: true, defer_ms: (2, 5), ..Cfg::default() };
                if by_count {
                    cfg.max_data_in_blob = 3;
                } else {
                    cfg.max_blob_size = 20 + 3 * 85;
                }
                v.push(RotCase { cfg, kind, nth, eio: nth % 2 == 0, short, by_count });
            }
        }
    }
    v
}

pub fn run_rot(c: &RotCase, dir: &Path, _findings: &Findings) -> Result<CaseOut, Failure> {
    let rt = c.cfg.runtime();
    let _ = std::fs::remove_dir_all(dir);
    let session = vio::start_session(dir);
    let res = rt.block_on(async {
        let fail = |clause: &str, detail: String, step: usize| -> Result<CaseOut, Failure> { Err(Failure { clause: clause.into(), detail, step, op: "rotation-after-fault".into() }) };
        let s = match sut::open(&c.cfg, dir, false).await {
            Ok(s) => s,
            Err(e) => return fail("init/err", format!("{:#}", e), 0),
        };
        let keylen = c.cfg.keylen;
        let mut acked: Vec<(u8, Vec<u8>)> = vec![];
        let mut n = 0u8;
        let mut stats = crate::interp::Stats::default();
        // every record is 20 bytes of data: 65 + 8 + 20 = 93 bytes with key length 8
        macro_rules! put {
            ($tolerate:expr) => {{
                n += 1;
                let val = value_bytes(n as usize, 20, 0);
                stats.writes += 1;
                match s.write(&sut::key_bytes(keylen, n), bytes::Bytes::from(val.clone()), n as u64, None).await {
                    Ok(()) => acked.push((n, val)),
                    Err(e) => {
                        if !$tolerate {
                            return fail("fault/write-after-fault-failed", format!("write {} failed although no fault is armed: {:#}", n, e), n as usize);
                        }
                    }
                }
            }};
        }
        put!(false);
        put!(false);
        // the rotation debounce looks at the blob's age
        tokio::time::sleep(Duration::from_millis(230)).await;
        let k = match c.kind {
            FailKind::Create => vio::Kind::Create,
            FailKind::Open => vio::Kind::Open,
            FailKind::Write => vio::Kind::Write,
            FailKind::Sync => vio::Kind::Sync,
        };
        session.arm(vio::Failpoint { kind: k, ext: "blob".into(), nth: c.nth as u64, errno: if c.eio { libc::EIO } else { libc::ENOSPC }, short: c.short.map(|x| x as u64), sticky: false, seen: 0, fired: 0 });
        let blobs_before = s.blobs_count().await;
        // these writes fill the blob; the background rotation (or the write itself) meets the fault
        put!(true);
        put!(true);
        let _ = wait_quiet(s.as_ref(), true, crate::interp::max_wait()).await;
        let fired: u64 = session.failpoints().iter().map(|f| f.fired).sum();
        session.disarm_all();
        let mut labels = BTreeSet::new();
        let blobs_at_fault = s.blobs_count().await;
        if fired > 0 {
            labels.insert("fault_fired".to_string());
            if blobs_at_fault == blobs_before {
                labels.insert("rotation_failed_under_fault".to_string());
            }
        }
        // the fault is gone: the blob is still full and old, so the next writes ask for the rotation again
        put!(false);
        put!(false);
        match wait_quiet(s.as_ref(), true, crate::interp::max_wait()).await {
            Ok(st) if st.worker_alive() => {}
            Ok(st) | Err(st) => return fail(if st.worker_alive() { "bg/stall" } else { "bg/worker-dead" }, format!("after the fault: {:?}", st), n as usize),
        }
        let blobs_after = s.blobs_count().await;
        if blobs_after <= blobs_before {
            return fail("fault/no-rotation-after-fault", format!("{} failpoint(s) fired during the rotation; after the fault cleared {} more writes went into the full, aged blob but it was not rotated: blobs_count {} -> {} -> {}, {:?} records in the active blob (limit {})", fired, 2, blobs_before, blobs_at_fault, blobs_after, s.records_count_in_active().await, if c.by_count { "3 records" } else { "275 bytes" }), n as usize);
        }
        // and rotation goes on
        tokio::time::sleep(Duration::from_millis(230)).await;
        for _ in 0..5 {
            put!(false);
        }
        let _ = wait_quiet(s.as_ref(), true, crate::interp::max_wait()).await;
        let blobs_later = s.blobs_count().await;
        if blobs_later <= blobs_after {
            return fail("fault/rotation-stopped-later", format!("blobs_count stays {} after 5 more writes into an aged blob", blobs_later), n as usize);
        }
        for (k, want) in &acked {
            stats.queries += 1;
            match s.read(&sut::key_bytes(keylen, *k)).await {
                Ok(sut::RR::Found(d)) if &d == want => {}
                Ok(o) => return fail("read/mismatch", format!("key {} acknowledged, read returns {}", k, o.class()), *k as usize),
                Err(e) => return fail("read/err", format!("key {}: {:#}", k, e), *k as usize),
            }
        }
        if let Err(e) = s.close().await {
            return fail("close/err", format!("{:#}", e), n as usize);
        }
        Ok(CaseOut { nontrivial: fired > 0, labels, stats, known_hits: Default::default(), weight: 1 })
    });
    vio::end_session(dir);
    drop(rt);
    res
}

fn sample_rot(c: &RotCase) -> Value {
    json!({"limit": if c.by_count { "3 records" } else { "275 bytes" }, "rt_workers": c.cfg.rt_workers, "fault": format!("{:?} #{} on *.blob, {}, short={:?}", c.kind, c.nth, if c.eio { "EIO" } else { "ENOSPC" }, c.short)})
}

pub fn run(ctx: &RunCtx) -> PropResult {
    let mut report = Report::default();
    let findings = ctx.findings.clone();
    let runf = |c: &Case, d: &Path| run_fault(c, d, &findings);
    run_replays::<Case, _>(ctx, "fault", &ctx.verif_dir.join("replays").join("C11"), runf, &mut report);
    let runf = |c: &Case, d: &Path| run_fault(c, d, &findings);
    run_generated(ctx, "fault", ctx.tier.pick(3000, 40_000), fault_strategy, runf, &sample, &mut report);
    let runf = |c: &Case, d: &Path| run_fault(c, d, &findings);
    run_enumerated(ctx, "fault-nth", enumerated(ctx.tier == Tier::Thorough), runf, &sample, &mut report);
    let runf = |c: &RotCase, d: &Path| run_rot(c, d, &findings);
    run_enumerated(ctx, "fault-rotation", rot_cases(ctx.tier == Tier::Thorough), runf, &sample_rot, &mut report);
    PropResult {
        report,
        level: "fault_enumeration",
        rule: "Histories (data ops around the write-path thresholds, switch/close/create/restore/force_update, wait-idle, restarts) with one-shot failpoints armed at generated steps through the I/O hook: kind in {create, open, write, short write of b bytes, sync} x {blob, index files} x n-th matching operation (1..5) x {ENOSPC, EIO}; client calls and background dumps alike. Oracle: an unexpected error without a fired failpoint is a violation; a write that returned Err is rolled back in the model and must never be served; after every step every untainted key answers read/contains/read_all*/read_with exactly as the model (every record acknowledged earlier stays readable with exact bytes); after the fault clears a write to every key and a delete succeed and take effect, the worker is alive and idle is reached; after restart every blob is served, or sits byte-identical in the corrupted dir (then its records leave the model). A key hit by a faulted delete is excluded (a delete may be applied to some blobs only). An enumerated phase repeats one fixed history with the n-th write / sync / create / open on blob / index files failing for every n the fault-free run performs, on a fresh and on a reopened (append-mode) active blob. A third phase (fault-rotation) lets the fault hit the background rotation of a full, aged active blob (create / header write incl. short / header sync of the next blob, or the record write that fills the blob; limits by count and by size): after the fault has cleared the next two writes must get the blob rotated, five later writes must rotate again, the worker stays alive and every acknowledged record reads back. Non-trivial = a failpoint fired during a call. distinct = FNV hash of the serialized case.".into(),
        assumptions: {
            let mut a = common_assumptions();
            a.push("faults are injected at pearl's own file-operation call sites (hook H2); the kernel is not involved, so errno-specific kernel side effects are not modelled".into());
            a
        },
    }
}

pub fn replay_other(phase: &str, case: &Value, dir: &Path, findings: &Findings) -> Option<Result<CaseOut, Failure>> {
    if phase == "fault-rotation" {
        let runf = |c: &RotCase, d: &Path| run_rot(c, d, findings);
        return serde_json::from_value::<RotCase>(case.clone()).ok().map(|c| guarded(&c, dir, &runf));
    }
    if phase.starts_with("fault") {
        let runf = |c: &Case, d: &Path| run_fault(c, d, findings);
        serde_json::from_value::<Case>(case.clone()).ok().map(|c| guarded(&c, dir, &runf))
    } else {
        None
    }
}
