//! C06 Crash recovery: acknowledged records are served or recoverable, never wrong.
use super::{common_assumptions, PropResult};
use crate::crashjudge::judge_crash_dir;
use crate::findings::Findings;
use crate::interp::{Checks, Exec, Failure, Stats};
use crate::ops::*;
use crate::runner::*;
use crate::sut::{self, key_bytes, Cfg, Sut};
use bytes::Bytes;
use pearl::verif::io as vio;
use proptest::prelude::*;
use serde::{Deserialize, Serialize};
use serde_json::{json, Value};
use std::collections::{BTreeMap, BTreeSet};
use std::io::{BufRead, BufReader, Write};
use std::path::{Path, PathBuf};
use std::process::{Command, Stdio};
use std::time::Duration;

const NKEYS: u8 = 5;

// ------------------------------------------------------------------------------------------------
// phase "kill": SIGKILL of a real child process
// ------------------------------------------------------------------------------------------------

#[derive(Clone, Debug, Serialize, Deserialize)]
pub struct KillCase {
    pub cfg: Cfg,
    /// seed of the child's history
    pub seed: u64,
    /// kill after this many acknowledged operations ...
    pub kill_after: u16,
    /// ... plus this many microseconds, so that the kill lands inside a call
    pub delay_us: u16,
    pub lazy: bool,
    pub second_crash_removes_indexes: bool,
}

struct Lcg(u64);
impl Lcg {
    fn next(&mut self) -> u64 {
        self.0 ^= self.0 << 13;
        self.0 ^= self.0 >> 7;
        self.0 ^= self.0 << 17;
        self.0
    }
    fn below(&mut self, n: u64) -> u64 {
        self.next() % n.max(1)
    }
}

/// The child's history: a pure function of the seed. Timestamps are unique (op index + 1).
pub fn child_history(seed: u64, n: usize) -> Vec<Op> {
    let mut r = Lcg(seed.wrapping_mul(0x9E37_79B9_7F4A_7C15) | 1);
    let mut ops = vec![];
    for i in 0..n {
        let x = r.below(100);
        let key = r.below(NKEYS as u64) as u8;
        let ts = i as u64 + 1;
        if x < 72 {
            let vlen = match r.below(12) {
                0 => 0,
                1 => vlen_rel(0, (r.below(5) as i8) - 2),
                2 => vlen_rel(1, (r.below(5) as i8) - 2),
                3 => 90_000,
                4 => 300_000,
                5 => vlen_rel(3, 1),
                _ => r.below(3000) as u32,
            };
            ops.push(Op::Write { key, ts, meta: r.below(3) as u8, vlen, fill: 0 });
        } else if x < 84 {
            ops.push(Op::Delete { key, ts, meta: 0, only_if: r.below(2) == 0 });
        } else if x < 96 {
            ops.push(Op::Switch);
        } else {
            ops.push(Op::WaitIdle);
        }
    }
    ops
}

/// Entry point of the child process: runs the history, prints one line per acknowledged op
pub fn child_main(arg: &str) -> i32 {
    let c: KillCase = match serde_json::from_str(arg) {
        Ok(c) => c,
        Err(_) => return 3,
    };
    let dir = PathBuf::from(std::env::var("C06_DIR").unwrap_or_default());
    let rt = c.cfg.runtime();
    rt.block_on(async {
        let s: Box<dyn Sut> = match sut::open(&c.cfg, &dir, false).await {
            Ok(s) => s,
            Err(_) => return 4,
        };
        let out = std::io::stdout();
        let ops = child_history(c.seed, 4000);
        let keylen = c.cfg.keylen;
        for (i, op) in ops.iter().enumerate() {
            let mut extra = 0u64;
            match op {
                Op::Write { key, ts, meta, vlen, fill } => {
                    let mm = meta_pool(*meta);
                    let val = value_bytes(i, resolve_vlen(*vlen, keylen, &mm), *fill);
                    if s.write(&key_bytes(keylen, *key), Bytes::from(val), *ts, mm.as_ref().map(sut::to_meta)).await.is_err() {
                        return 5;
                    }
                }
                Op::Delete { key, ts, meta, only_if } => match s.delete(&key_bytes(keylen, *key), *ts, meta_pool(*meta).as_ref().map(sut::to_meta), *only_if).await {
                    Ok(n) => extra = n,
                    Err(_) => return 5,
                },
                Op::Switch => {
                    let _ = s.try_close_active().await;
                    let _ = s.try_create_active().await;
                }
                _ => {
                    let _ = sut::wait_quiet(s.as_ref(), false, Duration::from_secs(10)).await;
                }
            }
            let mut o = out.lock();
            let _ = writeln!(o, "A {} {}", i, extra);
            let _ = o.flush();
        }
        0
    })
}

extern "C" {
    fn kill(pid: i32, sig: i32) -> i32;
}

pub fn run_kill(c: &KillCase, dir: &Path, findings: &Findings) -> Result<CaseOut, Failure> {
    let _ = std::fs::remove_dir_all(dir);
    let _ = std::fs::create_dir_all(dir);
    let exe = std::env::current_exe().map_err(|e| Failure { clause: "harness/exe".into(), detail: e.to_string(), step: 0, op: String::new() })?;
    let mut ch = Command::new(&exe)
        .arg("child-c06")
        .arg(serde_json::to_string(c).unwrap_or_default())
        .env("C06_DIR", dir)
        .stdout(Stdio::piped())
        .stderr(Stdio::null())
        .spawn()
        .map_err(|e| Failure { clause: "harness/spawn".into(), detail: e.to_string(), step: 0, op: String::new() })?;
    let stdout = ch.stdout.take().unwrap();
    let mut rd = BufReader::new(stdout);
    let mut line = String::new();
    let mut acks: Vec<(usize, u64)> = vec![];
    let parse = |l: &str| -> Option<(usize, u64)> {
        let p: Vec<&str> = l.split_whitespace().collect();
        if p.len() == 3 && p[0] == "A" {
            Some((p[1].parse().ok()?, p[2].parse().ok()?))
        } else {
            None
        }
    };
    loop {
        line.clear();
        if rd.read_line(&mut line).unwrap_or(0) == 0 {
            break;
        }
        if let Some(a) = parse(&line) {
            acks.push(a);
            if acks.len() >= c.kill_after as usize {
                break;
            }
        }
    }
    std::thread::sleep(Duration::from_micros(c.delay_us as u64));
    unsafe {
        kill(ch.id() as i32, 9);
    }
    // acknowledgements that were written before the process died
    loop {
        line.clear();
        if rd.read_line(&mut line).unwrap_or(0) == 0 {
            break;
        }
        if line.ends_with('\n') {
            if let Some(a) = parse(&line) {
                acks.push(a);
            }
        }
    }
    let _ = ch.wait();
    let ops = child_history(c.seed, 4000);
    let rt = c.cfg.runtime();
    let res = rt.block_on(async {
        let v = judge_crash_dir(&c.cfg, dir, c.lazy, NKEYS, findings, c.second_crash_removes_indexes).await?;
        // a process kill loses nothing that was acknowledged: every acknowledged record is physically complete
        // (in a served blob, or in the recoverable part of a quarantined one)
        let mut phys: BTreeMap<(Vec<u8>, u64, bool), Vec<Vec<u8>>> = BTreeMap::new();
        for recs in v.physical.values() {
            for r in recs.iter().take_while(|r| r.data_crc_ok) {
                phys.entry((r.hdr.key.clone(), r.hdr.timestamp, r.deleted())).or_default().push(r.data.clone());
            }
        }
        let keylen = c.cfg.keylen;
        for (i, extra) in &acks {
            match &ops[*i] {
                Op::Write { key, ts, meta, vlen, fill } => {
                    let mm = meta_pool(*meta);
                    let val = value_bytes(*i, resolve_vlen(*vlen, keylen, &mm), *fill);
                    let found = phys.get(&(key_bytes(keylen, *key), *ts, false)).map_or(false, |v| v.iter().any(|d| d == &val));
                    if !found {
                        return Err(Failure { clause: "kill/acknowledged-write-lost".into(), detail: format!("op {} write(k{}, ts {}, {} B) was acknowledged but is neither in a served blob nor in the recoverable part of a quarantined one", i, key, ts, val.len()), step: *i, op: format!("{:?}", ops[*i]) });
                    }
                }
                Op::Delete { key, ts, .. } => {
                    let n = phys.get(&(key_bytes(keylen, *key), *ts, true)).map_or(0, |v| v.len()) as u64;
                    if n < *extra {
                        return Err(Failure { clause: "kill/acknowledged-delete-lost".into(), detail: format!("op {} delete(k{}, ts {}) reported {} markers, {} are on disk", i, key, ts, extra, n), step: *i, op: format!("{:?}", ops[*i]) });
                    }
                }
                _ => {}
            }
        }
        Ok(v)
    });
    drop(rt);
    let v = res?;
    let mut labels = v.labels.clone();
    let inflight_visible = acks.last().map_or(false, |(i, _)| v.physical.values().flatten().any(|r| r.hdr.timestamp == *i as u64 + 2));
    if inflight_visible {
        labels.insert("unacknowledged_record_on_disk".into());
    }
    let mut stats = Stats::default();
    stats.queries = v.queries;
    stats.steps = acks.len() as u64;
    let nontrivial = labels.contains("torn_or_damaged_blob") || inflight_visible;
    Ok(CaseOut { nontrivial, labels, stats, known_hits: Default::default(), weight: 1 })
}

pub fn kill_strategy() -> BoxedStrategy<KillCase> {
    let cfg = (prop::sample::select(&[8usize, 33][..]), any::<bool>(), prop::bool::weighted(0.15), prop_oneof![3 => Just(2usize), 1 => Just(0usize)]).prop_map(|(keylen, validate_data, ignore_corrupted, rt_workers)| Cfg { keylen, validate_data, ignore_corrupted, rt_workers, allow_dup: true, defer_ms: (2, 5), ..Cfg::default() });
    (cfg, any::<u64>(), 1u16..120, prop_oneof![Just(0u16), 0u16..300, 0u16..4000], prop::bool::weighted(0.25), any::<bool>())
        .prop_map(|(cfg, seed, kill_after, delay_us, lazy, second_crash_removes_indexes)| KillCase { cfg, seed, kill_after, delay_us, lazy, second_crash_removes_indexes })
        .boxed()
}

// ------------------------------------------------------------------------------------------------
// phase "power": power-loss states built from the I/O trace
// ------------------------------------------------------------------------------------------------

#[derive(Clone, Debug, Serialize, Deserialize)]
pub struct PowerCase {
    pub cfg: Cfg,
    pub ops: Vec<Op>,
    /// crash point: fraction of the event trace
    pub crash_at: u16,
    /// per-file persisted length selector (indexed by file order), between the synced length and the written length
    pub cuts: Vec<u16>,
    /// zero-fill up to this many bytes of the un-synced persisted tail (torn write), 0 = none
    pub torn: u16,
    pub lazy: bool,
    pub second_crash_removes_indexes: bool,
}

pub fn power_strategy() -> BoxedStrategy<PowerCase> {
    let gen = GenParams { nkeys: NKEYS, ts_span: 5, metas: 3, max_ops: 30, w_write: 50, w_delete: 12, w_switch: 12, w_wait: 8, w_reopen: 3, w_lifecycle: 4, w_maint: 3, vlen: VlenGen::Thresholds, ..Default::default() };
    let cfg = (cfg_strategy(&[8, 33], true), any::<bool>(), prop::bool::weighted(0.15), prop_oneof![Just(None), Just(Some(0u64)), Just(Some(4096u64))]).prop_map(|(mut c, v, ig, limit)| {
        c.validate_data = v;
        c.ignore_corrupted = ig;
        c.allow_dup = true;
        c.dirty_limit = limit;
        c
    });
    let cut = prop_oneof![3 => any::<u16>(), 2 => Just(u16::MAX), 2 => Just(0u16)];
    (cfg, prop::collection::vec(op_strategy(&gen), 1..gen.max_ops), prop_oneof![4 => any::<u16>(), 1 => Just(65534u16)], prop::collection::vec(cut, 8), prop_oneof![3 => Just(0u16), 1 => 1u16..4096], prop::bool::weighted(0.25), any::<bool>())
        .prop_map(|(cfg, ops, crash_at, cuts, torn, lazy, second_crash_removes_indexes)| PowerCase { cfg, ops, crash_at, cuts, torn, lazy, second_crash_removes_indexes })
        .boxed()
}

struct FileState {
    content: Vec<u8>,
    /// length covered by the last completed sync
    synced: u64,
    pending_sync: BTreeMap<u64, u64>,
}

/// Rebuilds every file as of event index `upto` and returns (path -> (content, synced length))
fn files_at(events: &[vio::Event], upto: usize) -> BTreeMap<PathBuf, (Vec<u8>, u64)> {
    let mut files: BTreeMap<PathBuf, FileState> = BTreeMap::new();
    for e in events.iter().take(upto) {
        match (e.kind, e.begin) {
            (vio::Kind::Create, true) => {
                if !e.injected {
                    files.entry(e.path.clone()).or_insert(FileState { content: vec![], synced: 0, pending_sync: BTreeMap::new() });
                }
            }
            (vio::Kind::Write, true) => {
                if let (Some(p), false) = (&e.payload, e.injected) {
                    let f = files.entry(e.path.clone()).or_insert(FileState { content: vec![], synced: 0, pending_sync: BTreeMap::new() });
                    let end = e.offset as usize + p.len();
                    if f.content.len() < end {
                        f.content.resize(end, 0);
                    }
                    f.content[e.offset as usize..end].copy_from_slice(p);
                }
            }
            (vio::Kind::Sync, true) => {
                if let Some(f) = files.get_mut(&e.path) {
                    let len = f.content.len() as u64;
                    f.pending_sync.insert(e.op, len);
                }
            }
            (vio::Kind::Sync, false) => {
                if let Some(f) = files.get_mut(&e.path) {
                    if let Some(len) = f.pending_sync.remove(&e.op) {
                        if !e.injected {
                            f.synced = f.synced.max(len);
                        }
                    }
                }
            }
            (vio::Kind::Truncate, true) => {
                if let Some(f) = files.get_mut(&e.path) {
                    f.content.clear();
                    f.synced = 0;
                }
            }
            (vio::Kind::Remove, true) => {
                files.remove(&e.path);
            }
            (vio::Kind::Rename, true) => {
                if let (Some(f), Some(to)) = (files.remove(&e.path), e.to.clone()) {
                    files.insert(to, f);
                }
            }
            _ => {}
        }
    }
    files.into_iter().map(|(p, f)| (p, (f.content, f.synced))).collect()
}

pub fn run_power(c: &PowerCase, dir: &Path, findings: &Findings) -> Result<CaseOut, Failure> {
    let live = dir.join("live");
    let crash = dir.join("crash");
    let _ = std::fs::remove_dir_all(dir);
    let session = vio::start_session(&live);
    session.set_record_payload(true);
    let rt = c.cfg.runtime();
    let res = rt.block_on(async {
        // 1. the history, recorded
        let mut ex = Exec::new(c.cfg.clone(), live.clone(), Checks::default(), NKEYS, 2, findings);
        ex.start().await?;
        for (i, op) in c.ops.iter().enumerate() {
            ex.apply(i, op).await?;
        }
        let _ = ex.wait_msgs().await;
        let before_close = session.events_len();
        let _ = ex.close().await;
        let events = session.events();
        // 2. the crash state (selector 65534 = right before the final close, where the active blob has un-synced bytes)
        let upto = if c.crash_at == 65534 { before_close.max(1) } else { 1 + crate::damage::pick(c.crash_at, events.len().max(1)) };
        let files = files_at(&events, upto);
        let _ = std::fs::create_dir_all(&crash);
        let mut labels = BTreeSet::new();
        let mut cut_inside_unsynced = false;
        for (fi, (path, (content, synced))) in files.iter().enumerate() {
            let name = match path.file_name() {
                Some(n) => n,
                None => continue,
            };
            if path.parent() != Some(live.as_path()) {
                continue;
            }
            let sel = c.cuts[fi % c.cuts.len()];
            let len = content.len() as u64;
            let l = crate::damage::span(sel, (*synced).min(len), len);
            let is_index = path.extension().map_or(false, |x| x == "index");
            if is_index && *synced == 0 && sel == 0 {
                labels.insert("index_absent".to_string());
                continue; // never synced: may be absent altogether
            }
            let mut bytes = content[..l as usize].to_vec();
            if l < len {
                cut_inside_unsynced = true;
                labels.insert(if is_index { "index_cut".to_string() } else { "blob_cut".to_string() });
            }
            if c.torn > 0 && l > *synced && !is_index {
                let from = (*synced).max(l.saturating_sub(c.torn as u64)) as usize;
                for b in &mut bytes[from..] {
                    *b = 0;
                }
                labels.insert("torn_zero_fill".to_string());
            }
            std::fs::write(crash.join(name), bytes).map_err(|e| Failure { clause: "harness/write".into(), detail: e.to_string(), step: 0, op: String::new() })?;
        }
        // a record whose data was zero-filled inside an otherwise complete blob is accepted without data validation and
        // answers Err when read: that is allowed, but the model-based judge cannot express it -> only init is judged
        if c.torn > 0 && !c.cfg.validate_data {
            match sut::open(&c.cfg, &crash, c.lazy).await {
                Ok(s) => {
                    let _ = s.close().await;
                }
                Err(e) => return Err(Failure { clause: "crash/init-err".into(), detail: format!("{:#}", e), step: upto, op: "power-loss".into() }),
            }
            labels.insert("init_only".to_string());
            return Ok((labels, 0u64, false, upto, events.len()));
        }
        // the crash state depends on how background work interleaved in this run: save the state itself as the replay
        let state = snapshot_state(&crash);
        let v = match judge_crash_dir(&c.cfg, &crash, c.lazy, NKEYS, findings, c.second_crash_removes_indexes).await {
            Ok(v) => v,
            Err(mut f) => {
                f.step = upto;
                let case = json!({"cfg": c.cfg, "lazy": c.lazy, "second_crash_removes_indexes": c.second_crash_removes_indexes, "files": state});
                let p = write_replay_value(Path::new(&std::env::var("VERIF_DIR").unwrap_or_else(|_| "/verif".into())), "C06", "crashdir", &case, &f);
                set_replay_override(p);
                return Err(f);
            }
        };
        for l in v.labels.iter() {
            labels.insert(l.clone());
        }
        Ok((labels, v.queries, cut_inside_unsynced, upto, events.len()))
    });
    vio::end_session(&live);
    drop(rt);
    let (labels, queries, cut, _upto, nev) = res?;
    let mut stats = Stats::default();
    stats.queries = queries;
    stats.steps = nev as u64;
    let nontrivial = cut && (labels.contains("torn_or_damaged_blob") || labels.contains("index_cut"));
    Ok(CaseOut { nontrivial, labels, stats, known_hits: Default::default(), weight: 1 })
}

/// file name -> hex content of every file in a crash directory
fn snapshot_state(dir: &Path) -> BTreeMap<String, String> {
    let mut m = BTreeMap::new();
    if let Ok(rd) = std::fs::read_dir(dir) {
        for e in rd.flatten() {
            let p = e.path();
            if p.is_file() {
                if let (Some(n), Ok(b)) = (p.file_name().and_then(|n| n.to_str()), std::fs::read(&p)) {
                    m.insert(n.to_string(), b.iter().map(|x| format!("{:02x}", x)).collect::<String>());
                }
            }
        }
    }
    m
}

#[derive(Clone, Debug, Serialize, Deserialize)]
pub struct CrashDirCase {
    pub cfg: Cfg,
    pub lazy: bool,
    pub second_crash_removes_indexes: bool,
    pub files: BTreeMap<String, String>,
}

/// Re-judges a saved crash state
pub fn run_crashdir(c: &CrashDirCase, dir: &Path, findings: &Findings) -> Result<CaseOut, Failure> {
    let _ = std::fs::remove_dir_all(dir);
    let _ = std::fs::create_dir_all(dir);
    for (name, hex) in &c.files {
        let bytes: Vec<u8> = (0..hex.len() / 2).filter_map(|i| u8::from_str_radix(&hex[2 * i..2 * i + 2], 16).ok()).collect();
        let _ = std::fs::write(dir.join(name), bytes);
    }
    let rt = c.cfg.runtime();
    let r = rt.block_on(judge_crash_dir(&c.cfg, dir, c.lazy, NKEYS, findings, c.second_crash_removes_indexes));
    drop(rt);
    let v = r?;
    let mut stats = Stats::default();
    stats.queries = v.queries;
    Ok(CaseOut { nontrivial: true, labels: v.labels, stats, known_hits: Default::default(), weight: 1 })
}

fn sample_kill(c: &KillCase) -> Value {
    json!({"cfg": format!("keylen={} validate_data={} ignore_corrupted={} rt_workers={}", c.cfg.keylen, c.cfg.validate_data, c.cfg.ignore_corrupted, c.cfg.rt_workers), "child_history_seed": c.seed, "first_ops": render_ops(&child_history(c.seed, 8)), "kill_after_acks": c.kill_after, "plus_delay_us": c.delay_us, "reopen_lazy": c.lazy, "second_crash_removes_indexes": c.second_crash_removes_indexes})
}

fn sample_power(c: &PowerCase) -> Value {
    json!({"cfg": format!("keylen={} validate_data={} ignore_corrupted={} dirty_limit={:?} rt_workers={}", c.cfg.keylen, c.cfg.validate_data, c.cfg.ignore_corrupted, c.cfg.dirty_limit, c.cfg.rt_workers), "ops": render_ops(&c.ops), "crash_at_fraction": c.crash_at, "per_file_cut_selectors": c.cuts, "torn_zero_fill_bytes": c.torn, "lazy": c.lazy})
}

/// Every byte of the tail record: a fixed history whose active blob is cut at each length of its last two records
fn tail_sweep(thorough: bool) -> Vec<PowerCase> {
    let mut out = vec![];
    let ops = vec![
        Op::Write { key: 0, ts: 1, meta: 1, vlen: 40, fill: 0 },
        Op::Write { key: 1, ts: 2, meta: 0, vlen: 41, fill: 0 },
        Op::Switch,
        Op::WaitIdle,
        Op::Write { key: 0, ts: 3, meta: 2, vlen: 120, fill: 0 },
        Op::Write { key: 2, ts: 4, meta: 0, vlen: 300, fill: 0 },
    ];
    let step = if thorough { 1u32 } else { 9 };
    let mut frac = 0u32;
    while frac <= 65535 {
        for validate_data in [false, true] {
            out.push(PowerCase { cfg: Cfg { keylen: 8, validate_data, allow_dup: true, defer_ms: (2, 5), ..Cfg::default() }, ops: ops.clone(), crash_at: 65534, cuts: vec![u16::MAX, u16::MAX, frac as u16, u16::MAX, u16::MAX, u16::MAX, u16::MAX, u16::MAX], torn: 0, lazy: false, second_crash_removes_indexes: frac % 2 == 0 });
        }
        // the active blob is ~650 bytes long: a selector step of 100 moves the cut by about one byte
        frac += 100 * step;
    }
    out
}

pub fn run(ctx: &RunCtx) -> PropResult {
    let mut report = Report::default();
    let findings = ctx.findings.clone();
    let runk = |c: &KillCase, d: &Path| run_kill(c, d, &findings);
    run_replays::<KillCase, _>(ctx, "kill", &ctx.verif_dir.join("replays").join("C06"), runk, &mut report);
    let runk = |c: &KillCase, d: &Path| run_kill(c, d, &findings);
    run_generated(ctx, "kill", ctx.tier.pick(160, 3000), kill_strategy, runk, &sample_kill, &mut report);
    let runp = |c: &PowerCase, d: &Path| run_power(c, d, &findings);
    run_replays::<PowerCase, _>(ctx, "power", &ctx.verif_dir.join("replays").join("C06"), runp, &mut report);
    let rund = |c: &CrashDirCase, d: &Path| run_crashdir(c, d, &findings);
    run_replays::<CrashDirCase, _>(ctx, "crashdir", &ctx.verif_dir.join("replays").join("C06"), rund, &mut report);
    let runp = |c: &PowerCase, d: &Path| run_power(c, d, &findings);
    run_generated(ctx, "power", ctx.tier.pick(3000, 40_000), power_strategy, runp, &sample_power, &mut report);
    let runp = |c: &PowerCase, d: &Path| run_power(c, d, &findings);
    run_enumerated(ctx, "power-tailsweep", tail_sweep(ctx.tier == Tier::Thorough), runp, &sample_power, &mut report);
    PropResult {
        report,
        level: "fault_enumeration",
        rule: "(kill) a child process (same binary) runs a seeded history of writes (0 B .. 300 KB, around both write-path thresholds), deletes, blob switches with unique timestamps and prints one line per acknowledged call; the parent SIGKILLs it after a generated number of acknowledgements plus 0-4000 us. (power) a generated history runs in-process under the I/O tap with payload capture; a crash point (event index) is drawn, every file is rebuilt as of that event and cut at a generated length between the length covered by its last completed sync and its written length (index files never synced may be absent), optionally with the un-synced tail zero-filled (torn write): only states obtainable by losing un-synced suffixes. An enumerated phase cuts the active blob at (every 9th / every) byte of its last two records. Oracle (both): the expectation comes from the harness's own parse of the blob files in the crash state: init returns Ok; every blob whose records tile it exactly is served in full - read/contains/read_all*/read_with for all keys equal a model built from the parsed records; every other blob sits byte-identical in the corrupted dir (or stays untouched with ignore_corrupted) and corrupted_blobs_count matches; recovery_blob on a quarantined file returns every complete record before the damage; then writes succeed, and after a further restart (optionally with all index files lost) everything is still served. Kill model additionally: every acknowledged write/delete marker is physically complete in a served blob or in the recoverable part of a quarantined one. Non-trivial: kill = a torn blob or an unacknowledged record on disk; power = a cut inside un-synced data that tears a blob or an index file. distinct = FNV hash of the serialized case.".into(),
        assumptions: {
            let mut a = common_assumptions();
            a.push("power-loss model: per-file prefix beyond the last completed sync (plus zero-filled tail); directory-entry durability and reordering inside synced data are out of scope, as in the statement".into());
            a.push("without data validation a record whose data was zero-filled inside a size-complete blob is accepted and answers Err; those cases are judged for init only".into());
            a
        },
    }
}

pub fn replay_other(phase: &str, case: &Value, dir: &Path, findings: &Findings) -> Option<Result<CaseOut, Failure>> {
    if phase == "kill" {
        let runk = |c: &KillCase, d: &Path| run_kill(c, d, findings);
        serde_json::from_value::<KillCase>(case.clone()).ok().map(|c| guarded(&c, dir, &runk))
    } else if phase == "crashdir" {
        let rund = |c: &CrashDirCase, d: &Path| run_crashdir(c, d, findings);
        serde_json::from_value::<CrashDirCase>(case.clone()).ok().map(|c| guarded(&c, dir, &rund))
    } else if phase.starts_with("power") {
        let runp = |c: &PowerCase, d: &Path| run_power(c, d, findings);
        serde_json::from_value::<PowerCase>(case.clone()).ok().map(|c| guarded(&c, dir, &runp))
    } else {
        None
    }
}
