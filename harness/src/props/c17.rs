//! C17 On-disk format compatibility with the pinned release.
use super::{common_assumptions, PropResult};
use crate::findings::Findings;
use crate::interp::{Failure, Stats};
use crate::ops::meta_pool;
use crate::runner::*;
use crate::sut::{self, key_bytes, to_meta, Bloom, Cfg, LoadMode, RR};
use serde::{Deserialize, Serialize};
use serde_json::{json, Value};
use std::collections::BTreeSet;
use std::path::{Path, PathBuf};

#[derive(Clone, Debug, Serialize, Deserialize, PartialEq, Eq)]
pub enum Mutation {
    None,
    /// open the directory with another key length
    KeyLen(usize),
    /// add 1 to the version field of this blob's header
    BlobVersion(usize),
    /// add 1 to the version bits of this index header
    IndexVersion(usize),
    /// subtract 1 from the version bits of this index header (an index of an EARLIER format generation: it must be thrown
    /// away and rebuilt just like a later one - the file on disk ends up byte-identical to the pinned original again)
    IndexVersionDown(usize),
    /// open the directory with ANOTHER bloom configuration than the one its index files were written with (off <-> on,
    /// other size): filters may never change an answer. With `extend` new blobs are then written and closed under the new
    /// configuration (old and new filter formats meet in one filter group) and the directory is reopened lazily.
    OtherBloom { extend: bool },
    /// open the directory with ANOTHER blob file name prefix than the one its files carry (an unrelated one, or one that
    /// merely starts with the old one): the pinned release loads every *.blob file of the work dir, the prefix only names new
    /// blobs - every recorded answer must hold
    OtherPrefix { longer: bool },
}

#[derive(Clone, Debug, Serialize, Deserialize)]
pub struct CompatCase {
    pub dir: String,
    /// ids of the blobs whose index file is removed
    pub removed: Vec<usize>,
    pub lazy: bool,
    pub mutation: Mutation,
    pub rt_workers: usize,
}

fn fail<T>(clause: &str, detail: String) -> Result<T, Failure> {
    Err(Failure { clause: clause.into(), detail, step: 0, op: String::new() })
}

fn fnv_hex(b: &[u8]) -> String {
    format!("{:016x}", fnv(b))
}

/// Key function of the "tree" corpus directories (tools/corpusgen `wide_key_bytes`)
fn wide_key_bytes(keylen: usize, i: u16) -> Vec<u8> {
    let mut v = vec![(i % 251) as u8; keylen];
    v[0] = (i >> 8) as u8;
    v[1] = i as u8;
    v
}

fn corpus_root(verif_dir: &Path) -> PathBuf {
    verif_dir.join("corpus").join("c17")
}

fn cfg_of(exp: &Value, rt_workers: usize) -> Cfg {
    let bloom = match exp["bloom"].as_str().unwrap_or("none") {
        "none" => Bloom::None,
        "tiny" => Bloom::Tiny,
        "odd" => Bloom::Odd,
        _ => Bloom::K80,
    };
    Cfg { keylen: exp["keylen"].as_u64().unwrap_or(8) as usize, bloom, group: exp["group"].as_u64().unwrap_or(8) as usize, allow_dup: true, rt_workers, defer_ms: (2, 5), ..Cfg::default() }
}

fn copy_dir(from: &Path, to: &Path) -> std::io::Result<()> {
    std::fs::create_dir_all(to)?;
    for e in std::fs::read_dir(from)? {
        let p = e?.path();
        if p.is_file() && p.file_name().map_or(false, |n| n != "expected.json") {
            std::fs::copy(&p, to.join(p.file_name().unwrap()))?;
        }
    }
    Ok(())
}

fn show_rr(r: &RR<Vec<u8>>) -> Value {
    match r {
        RR::Found(d) => json!({"class": "Found", "len": d.len(), "hash": fnv_hex(d)}),
        RR::Deleted(t) => json!({"class": "Deleted", "ts": t}),
        RR::NotFound => json!({"class": "NotFound"}),
    }
}

pub fn run_compat(c: &CompatCase, dir: &Path, verif_dir: &Path, _findings: &Findings) -> Result<CaseOut, Failure> {
    let src = corpus_root(verif_dir).join(&c.dir);
    let exp: Value = match std::fs::read(src.join("expected.json")).ok().and_then(|b| serde_json::from_slice(&b).ok()) {
        Some(v) => v,
        None => return fail("harness/corpus", format!("{} has no expected.json", src.display())),
    };
    let _ = std::fs::remove_dir_all(dir);
    copy_dir(&src, dir).map_err(|e| Failure { clause: "harness/copy".into(), detail: e.to_string(), step: 0, op: String::new() })?;
    for id in &c.removed {
        let _ = std::fs::remove_file(sut::index_path(dir, *id));
    }
    let mut cfg = cfg_of(&exp, c.rt_workers);
    let orig_keylen = cfg.keylen;
    match &c.mutation {
        Mutation::None => {}
        Mutation::KeyLen(k) => cfg.keylen = *k,
        Mutation::OtherBloom { .. } => {
            cfg.bloom = match cfg.bloom {
                Bloom::None => Bloom::Odd,
                Bloom::Tiny => Bloom::K80,
                Bloom::Odd => Bloom::None,
                _ => Bloom::Odd,
            };
        }
        Mutation::OtherPrefix { longer } => cfg.prefix = Some(if *longer { format!("{}2", sut::PREFIX) } else { "renamed".to_string() }),
        Mutation::BlobVersion(b) => {
            let p = sut::blob_path(dir, *b);
            let mut bytes = std::fs::read(&p).map_err(|e| Failure { clause: "harness/read".into(), detail: e.to_string(), step: 0, op: String::new() })?;
            bytes[8] = bytes[8].wrapping_add(1);
            let _ = std::fs::write(&p, bytes);
        }
        Mutation::IndexVersion(b) | Mutation::IndexVersionDown(b) => {
            let p = sut::index_path(dir, *b);
            if let Ok(mut bytes) = std::fs::read(&p) {
                let v = bytes[crate::blobfmt::INDEX_WRITTEN_BYTE];
                bytes[crate::blobfmt::INDEX_WRITTEN_BYTE] = if matches!(c.mutation, Mutation::IndexVersionDown(_)) { v.wrapping_sub(2) } else { v.wrapping_add(2) };
                let _ = std::fs::write(&p, bytes);
            }
        }
    }
    let rt = cfg.runtime();
    let res = rt.block_on(async {
        let mut stats = Stats::default();
        let mut labels = BTreeSet::new();
        let opened = sut::open(&cfg, dir, c.lazy).await;
        match &c.mutation {
            Mutation::BlobVersion(b) => {
                // an unknown blob version must be rejected with an error, not misread (nor silently set aside)
                return match opened {
                    Err(_) => {
                        labels.insert("blob_version_rejected".to_string());
                        Ok((labels, stats))
                    }
                    Ok(_) => fail("compat/blob-version-accepted", format!("{}: blob {} with a bumped format version was opened", c.dir, b)),
                };
            }
            Mutation::KeyLen(k) => {
                // files written for another key size: init fails, or everything is set aside; nothing is ever read successfully
                match opened {
                    Err(_) => {
                        labels.insert("key_size_rejected_by_init_error".to_string());
                    }
                    Ok(s) => {
                        for ki in 0..7u8 {
                            let kb = key_bytes(*k, ki);
                            stats.queries += 2;
                            match s.read(&kb).await {
                                Ok(RR::NotFound) | Err(_) => {}
                                Ok(other) => return fail("compat/key-size-misread", format!("{}: opened with key length {} (written with {}), read returned {}", c.dir, k, orig_keylen, show_rr(&other))),
                            }
                            match s.read_all(&kb, true, LoadMode::Full).await {
                                Ok(l) if !l.is_empty() => return fail("compat/key-size-misread", format!("{}: opened with key length {}, read_all returned {} entries", c.dir, k, l.len())),
                                _ => {}
                            }
                        }
                        if s.records_count().await != 0 {
                            return fail("compat/key-size-accepted", format!("{}: opened with key length {}, records_count = {}", c.dir, k, s.records_count().await));
                        }
                        labels.insert("key_size_rejected_by_quarantine".to_string());
                        let _ = s.close().await;
                    }
                }
                return Ok((labels, stats));
            }
            _ => {}
        }
        let s = match opened {
            Ok(s) => s,
            Err(e) => return fail("compat/init-err", format!("{}: {:#}", c.dir, e)),
        };
        if s.corrupted_blobs_count() != 0 {
            return fail("compat/quarantined", format!("{}: {} blobs of the pinned release were quarantined", c.dir, s.corrupted_blobs_count()));
        }
        let keylen = cfg.keylen;
        let wide = exp["keyfn"].as_str() == Some("wide");
        let mut s = s;
        // stage 0: filters as loaded; stage 1, 2: bloom buffers off-loaded at level 0 / every level (probed from the pinned index files)
        let mut stages: Vec<&str> = if cfg.bloom == Bloom::None { vec!["loaded"] } else { vec!["loaded", "offloaded-l0", "offloaded-all"] };
        let extend = matches!(c.mutation, Mutation::OtherBloom { extend: true });
        if extend {
            stages.push("extended");
            stages.push("extended-reopened");
        }
        for stage in stages.iter() {
        match *stage {
            "offloaded-l0" => {
                s.offload(usize::MAX, 0).await;
                labels.insert("filters_offloaded".to_string());
            }
            "offloaded-all" => {
                s.offload(usize::MAX, 100).await;
            }
            "extended" => {
                // new blobs under the new filter configuration: more than one filter group's worth, each closed and dumped
                for b in 0..(cfg.group as u8 + 2) {
                    let kb = if wide { wide_key_bytes(keylen, 60_000 + b as u16) } else { key_bytes(keylen, 200 + b) };
                    if let Err(e) = s.write(&kb, bytes::Bytes::from(vec![b; 9]), 1, None).await {
                        return fail("compat/write-err", format!("{}: {:#}", c.dir, e));
                    }
                    let _ = s.try_close_active().await;
                    let _ = s.try_create_active().await;
                }
                let _ = sut::wait_quiet(s.as_ref(), true, crate::interp::max_wait()).await;
                labels.insert("extended_under_other_filter_config".to_string());
            }
            "extended-reopened" => {
                if let Err(e) = s.close().await {
                    return fail("close/err", format!("{:#}", e));
                }
                s = match sut::open(&cfg, dir, true).await {
                    Ok(s) => s,
                    Err(e) => return fail("compat/init-err", format!("{} (after the extension, lazy): {:#}", c.dir, e)),
                };
            }
            _ => {}
        }
        if stage.starts_with("extended") {
            // the records written under the new configuration are served as well (old and new filters share groups)
            for b in 0..(cfg.group as u8 + 2) {
                let kb = if wide { wide_key_bytes(keylen, 60_000 + b as u16) } else { key_bytes(keylen, 200 + b) };
                stats.queries += 2;
                match s.read(&kb).await {
                    Ok(RR::Found(d)) if d == vec![b; 9] => {}
                    Ok(other) => return fail("compat/new-record-not-served", format!("{} ({}): record {} written under the other filter configuration reads {}", c.dir, stage, b, show_rr(&other))),
                    Err(e) => return fail("compat/read-err", format!("{} ({}): {:#}", c.dir, stage, e)),
                }
                if s.check_filters(&kb).await == Some(false) {
                    return fail("compat/new-record-filtered-out", format!("{} ({}): check_filters denies record {} written under the other filter configuration", c.dir, stage, b));
                }
            }
        }
        for kv in exp["keys"].as_array().cloned().unwrap_or_default() {
            let ki = kv["key"].as_u64().unwrap_or(0) as u16;
            let kb = if wide { wide_key_bytes(keylen, ki) } else { key_bytes(keylen, ki as u8) };
            let ki = format!("{} ({})", ki, stage);
            stats.queries += 6;
            let got = match s.read(&kb).await {
                Ok(r) => show_rr(&r),
                Err(e) => return fail("compat/read-err", format!("{} key {}: {:#}", c.dir, ki, e)),
            };
            if got != kv["read"] {
                return fail("compat/read", format!("{} key {}: got {} recorded {}", c.dir, ki, got, kv["read"]));
            }
            let got = match s.contains(&kb).await {
                Ok(RR::Found(t)) => json!({"class": "Found", "ts": t}),
                Ok(RR::Deleted(t)) => json!({"class": "Deleted", "ts": t}),
                Ok(RR::NotFound) => json!({"class": "NotFound"}),
                Err(e) => return fail("compat/contains-err", format!("{} key {}: {:#}", c.dir, ki, e)),
            };
            if got != kv["contains"] {
                return fail("compat/contains", format!("{} key {}: got {} recorded {}", c.dir, ki, got, kv["contains"]));
            }
            let list = match s.read_all(&kb, true, LoadMode::Full).await {
                Ok(l) => l,
                Err(e) => return fail("compat/read_all-err", format!("{} key {}: {:#}", c.dir, ki, e)),
            };
            let mut all = vec![];
            for e in list {
                match e {
                    Ok(v) => {
                        let metas: Vec<Value> = ["v", "w"].iter().filter_map(|n| v.meta.get(n).map(|x| json!([n, x]))).collect();
                        all.push(json!({"ts": v.ts, "deleted": v.deleted, "len": v.data.len(), "hash": fnv_hex(&v.data), "meta": metas}));
                    }
                    Err(e) => return fail("compat/load-err", format!("{} key {}: {:#}", c.dir, ki, e)),
                }
            }
            if Value::Array(all.clone()) != kv["read_all_with_deletion_marker"] {
                return fail("compat/read_all", format!("{} key {}: got {} entries, recorded {}", c.dir, ki, all.len(), kv["read_all_with_deletion_marker"].as_array().map_or(0, |a| a.len())));
            }
            for (j, mi) in (1..4u8).enumerate() {
                let mm = meta_pool(mi).unwrap_or_default();
                let got = match s.read_with(&kb, &to_meta(&mm)).await {
                    Ok(RR::Found(d)) => json!({"class": "Found", "len": d.len(), "hash": fnv_hex(&d)}),
                    Ok(RR::Deleted(_)) => json!({"class": "Deleted"}),
                    Ok(RR::NotFound) => json!({"class": "NotFound"}),
                    Err(e) => return fail("compat/read_with-err", format!("{} key {}: {:#}", c.dir, ki, e)),
                };
                if got != kv["read_with"][j] {
                    return fail("compat/read_with", format!("{} key {} meta {}: got {} recorded {}", c.dir, ki, mi, got, kv["read_with"][j]));
                }
            }
        }
        }
        let counts = json!({"records_count": s.records_count().await, "blobs_count": s.blobs_count().await, "next_blob_id": s.next_blob_id()});
        if counts != exp["counts"] && !extend {
            return fail("compat/counts", format!("{}: got {} recorded {}", c.dir, counts, exp["counts"]));
        }
        // index files regenerated by the current code are byte-identical to the ones the pinned code wrote
        let _ = sut::wait_quiet(s.as_ref(), true, crate::interp::max_wait()).await;
        if let Err(e) = s.close().await {
            return fail("close/err", format!("{:#}", e));
        }
        let mut regenerated = c.removed.clone();
        if let Mutation::IndexVersion(b) | Mutation::IndexVersionDown(b) = &c.mutation {
            regenerated.push(*b);
        }
        for id in &regenerated {
            let orig = std::fs::read(sut::index_path(&src, *id));
            let now = std::fs::read(sut::index_path(dir, *id));
            if let (Ok(o), Ok(n)) = (orig, now) {
                stats.queries += 1;
                if o != n {
                    let first = o.iter().zip(n.iter()).position(|(a, b)| a != b);
                    return fail("compat/index-bytes-differ", format!("{}: index of blob {} rebuilt by the current code differs from the file of the pinned release ({} vs {} bytes, first difference at {:?})", c.dir, id, n.len(), o.len(), first));
                }
                labels.insert("index_rebuilt_identical".to_string());
            }
        }
        Ok((labels, stats))
    });
    drop(rt);
    let (labels, stats) = res?;
    let nontrivial = !c.removed.is_empty() || c.mutation != Mutation::None;
    Ok(CaseOut { nontrivial, labels, stats, known_hits: Default::default(), weight: 1 })
}

pub fn enumerate(verif_dir: &Path) -> Vec<CompatCase> {
    let mut out = vec![];
    let mut dirs: Vec<String> = std::fs::read_dir(corpus_root(verif_dir)).map(|rd| rd.flatten().filter(|e| e.path().is_dir()).filter_map(|e| e.file_name().to_str().map(|s| s.to_string())).collect()).unwrap_or_default();
    dirs.sort();
    for d in dirs {
        let p = corpus_root(verif_dir).join(&d);
        let blobs: Vec<usize> = sut::list_files(&p).into_iter().filter(|x| !x.1).map(|x| x.0).collect();
        let with_index: Vec<usize> = sut::list_files(&p).into_iter().filter(|x| x.1).map(|x| x.0).collect();
        let keylen: usize = d.trim_start_matches('k').split('-').next().and_then(|s| s.parse().ok()).unwrap_or(8);
        for mask in 0u32..(1 << with_index.len()) {
            let removed: Vec<usize> = with_index.iter().enumerate().filter(|(j, _)| mask & (1 << j) != 0).map(|(_, id)| *id).collect();
            for lazy in [false, true] {
                out.push(CompatCase { dir: d.clone(), removed: removed.clone(), lazy, mutation: Mutation::None, rt_workers: if mask % 3 == 0 { 0 } else { 2 } });
            }
        }
        for other in [4usize, 8, 33] {
            if other != keylen {
                for removed in [vec![], with_index.clone()] {
                    out.push(CompatCase { dir: d.clone(), removed, lazy: false, mutation: Mutation::KeyLen(other), rt_workers: 2 });
                }
            }
        }
        for (lazy, longer) in [(false, false), (true, false), (false, true), (true, true)] {
            out.push(CompatCase { dir: d.clone(), removed: if lazy { with_index.clone() } else { vec![] }, lazy, mutation: Mutation::OtherPrefix { longer }, rt_workers: 2 });
        }
        for (lazy, extend) in [(false, false), (true, false), (false, true), (true, true)] {
            out.push(CompatCase { dir: d.clone(), removed: vec![], lazy, mutation: Mutation::OtherBloom { extend }, rt_workers: 2 });
        }
        for b in &blobs {
            out.push(CompatCase { dir: d.clone(), removed: vec![], lazy: false, mutation: Mutation::BlobVersion(*b), rt_workers: 2 });
            out.push(CompatCase { dir: d.clone(), removed: vec![], lazy: true, mutation: Mutation::BlobVersion(*b), rt_workers: 2 });
        }
        for b in &with_index {
            out.push(CompatCase { dir: d.clone(), removed: vec![], lazy: false, mutation: Mutation::IndexVersion(*b), rt_workers: 2 });
            out.push(CompatCase { dir: d.clone(), removed: vec![], lazy: true, mutation: Mutation::IndexVersion(*b), rt_workers: 2 });
            out.push(CompatCase { dir: d.clone(), removed: vec![], lazy: false, mutation: Mutation::IndexVersionDown(*b), rt_workers: 2 });
            out.push(CompatCase { dir: d.clone(), removed: vec![], lazy: true, mutation: Mutation::IndexVersionDown(*b), rt_workers: 2 });
        }
    }
    out
}

fn sample(c: &CompatCase) -> Value {
    json!({"corpus_dir": c.dir, "index_files_removed": c.removed, "lazy": c.lazy, "mutation": format!("{:?}", c.mutation)})
}

pub fn run(ctx: &RunCtx) -> PropResult {
    let mut report = Report::default();
    let findings = ctx.findings.clone();
    let vd = ctx.verif_dir.clone();
    let cases = enumerate(&ctx.verif_dir);
    let runf = |c: &CompatCase, d: &Path| run_compat(c, d, &vd, &findings);
    run_enumerated(ctx, "compat", cases, runf, &sample, &mut report);
    report.exhaustive = true;
    PropResult {
        report,
        level: "exploration",
        rule: "Cross-version differential over a committed corpus: 20 directories written by the pinned tree (8fcb7aa, hooks off): 5 with the short key sizes 1 / 2 / 3 / 12 / 16 (every length class of the bloom hash below 17 bytes) and a bloom filter each, 3 with key sizes 32 / 128 / 8 and timestamps from {0, 1, 3, 2^33+5, 2^33+6, u64::MAX-1, u64::MAX}, 9 small ones with key sizes 4/8/33, bloom none / 100-bit / 1237-bit / 80 000-bit, group sizes 2-8, 2-4 blobs, deletion markers, metadata, values across both write-path thresholds, and 3 'tree' directories (key sizes 8/33/400, 245-533 records over 2-3 blobs) whose index files have one to three levels of inner B+tree nodes; each with expected.json recording every answer the pinned code gave (read, contains, read_all_with_deletion_marker with every entry loaded, read_with x 3 metas, counts). Enumerated exhaustively: every subset of removed index files x eager/lazy init; opening with each other key size (with and without index files); opening with ANOTHER bloom configuration than the files were written with (off <-> on, other size), optionally writing and closing group-size + 2 new blobs under it and reopening lazily - every recorded answer must still hold; version bump of every blob header; version bump and version decrement of every index header. Oracle: answers equal expected.json for every present/absent index combination - with the filters as loaded and again after off-loading the bloom buffers (level 0, then all levels), so that in-file filter probing of pinned index files is exercised - and after an index-version bump (the index is regenerated); index files rebuilt by the current code are byte-identical to the ones the pinned code wrote; a bumped blob version makes init fail; another key size never yields a successful read (init error, or everything quarantined with records_count 0). Non-trivial = at least one index removed or a mutation applied. distinct = FNV hash of the serialized case; the enumeration is complete for this corpus.".into(),
        assumptions: {
            let mut a = common_assumptions();
            a.push("covers only formats the pinned tree can write; the corpus is small by construction (tools/corpusgen is its generator, kept for provenance)".into());
            a
        },
    }
}

pub fn replay_other(phase: &str, case: &Value, dir: &Path, verif_dir: &Path, findings: &Findings) -> Option<Result<CaseOut, Failure>> {
    if phase == "compat" {
        let runf = |c: &CompatCase, d: &Path| run_compat(c, d, verif_dir, findings);
        serde_json::from_value::<CompatCase>(case.clone()).ok().map(|c| guarded(&c, dir, &runf))
    } else {
        None
    }
}
