//! C09 On-disk B+tree index answers exactly like the in-memory index it was built from.
use super::{common_assumptions, PropResult};
use crate::interp::{Failure, Stats};
use crate::runner::*;
use pearl::verif::index::{Hdr, IndexProbe, Latest};
use pearl::{ArrayKey, BloomConfig};
use proptest::prelude::*;
use serde::{Deserialize, Serialize};
use serde_json::{json, Value};
use std::collections::{BTreeMap, BTreeSet};
use std::path::Path;

// 7 and 71: the 64/128-byte record header divides the block; 3, 5, 6, 48, 65, 138, 284, 576: (BLOCK - 8) mod (key + 8) < 8,
// i.e. an inner node with one more child would still fit without the extra pointer (capacity arithmetic classes)
/// (1000 and 2000: three / one header per leaf, five / three children per inner node - trees of five to seven node levels
/// are reached with a few hundred to two thousand headers)
/// (2040 and 4000: one header per leaf and TWO children per inner node - the smallest fan-out there is; nodes with a single
/// child and no key arise whenever a tree layer has an odd number of nodes. 4039 is the largest key whose record header
/// still fits a block; longer keys are outside what the index format can hold and are not probed)
pub const PROBE_KEYLENS: &[usize] = &[1, 2, 3, 4, 5, 6, 7, 8, 16, 33, 48, 65, 71, 100, 138, 284, 400, 576, 1000, 2000, 2040, 4000];
const BLOCK: usize = 4096;

pub fn per_block(keylen: usize) -> usize {
    BLOCK / (57 + keylen)
}
pub fn fanout(keylen: usize) -> usize {
    (BLOCK - 8 - 8) / (keylen + 8) + 1
}

#[derive(Clone, Debug, Serialize, Deserialize)]
pub struct IdxCase {
    pub keylen: usize,
    pub bloom: bool,
    pub prefix: u8,
    /// versions per key (key i has counter 2*i+1, so every even counter is an absent key)
    pub versions: Vec<u16>,
    /// per-record (timestamp, deleted) source and push order come from this seed
    pub seed: u64,
    pub ts_span: u8,
    pub del_pct: u8,
    pub blob_size: u64,
    /// query every key (else a spread subset when there are many)
    pub all_keys: bool,
    /// use the key type whose order is the reversed-byte order (key lengths 8 / 33 / 400 only)
    #[serde(default)]
    pub rev_order: bool,
}

fn key_bytes(keylen: usize, prefix: u8, counter: u32) -> Vec<u8> {
    let mut v = vec![prefix; keylen];
    let be = counter.to_be_bytes();
    let n = keylen.min(4);
    v[keylen - n..].copy_from_slice(&be[4 - n..]);
    v
}

fn max_keys(keylen: usize) -> usize {
    match keylen {
        1 => 120,
        // (one header per leaf and fan-out 2: 600 keys are ten node levels already)
        2040 | 4000 => 600,
        _ => 3000,
    }
}

struct Lcg(u64);
impl Lcg {
    fn next(&mut self) -> u64 {
        self.0 ^= self.0 << 13;
        self.0 ^= self.0 >> 7;
        self.0 ^= self.0 << 17;
        self.0
    }
    fn below(&mut self, n: u64) -> u64 {
        self.next() % n.max(1)
    }
}

pub fn idx_strategy() -> BoxedStrategy<IdxCase> {
    prop::sample::select(PROBE_KEYLENS)
        .prop_flat_map(|keylen| {
            let pb = per_block(keylen);
            let fan = fanout(keylen);
            let cap = max_keys(keylen);
            let lvl2 = (pb * fan).min(cap);
            let lvl3 = (pb * fan * fan).saturating_add(pb * fan / 2).min(cap);
            // tall trees: around and beyond fan-out^4 leaves where the key length makes that affordable
            let lvl4 = pb * fan * fan * fan * fan;
            let deep = if lvl4 + pb < cap { lvl4.saturating_sub(pb).max(1)..(lvl4 * fan).min(cap) + 1 } else { (lvl3 / 2).max(1)..(lvl3 + 1) };
            let nkeys = prop_oneof![
                1 => deep,
                3 => 1usize..6,
                3 => (pb.saturating_sub(2).max(1))..(pb + 3).min(cap + 1),
                2 => (lvl2.saturating_sub(pb).max(1))..(lvl2 + pb).min(cap + 1),
                2 => 1usize..(lvl3 + 1),
                1 => (lvl3 / 2).max(1)..(lvl3 + 1),
            ];
            let run = prop_oneof![
                2 => Just(2u16), 2 => Just(3u16),
                2 => Just(pb.saturating_sub(1).max(1) as u16), 3 => Just(pb as u16), 2 => Just(pb as u16 + 1),
                2 => Just(2 * pb as u16 + 1), 1 => Just(2 * pb as u16), 2 => 1u16..300,
            ];
            (Just(keylen), nkeys, prop::collection::vec((any::<u16>(), run), 0..5), any::<bool>(), any::<u8>(), any::<u64>(), 1u8..5, prop_oneof![Just(0u8), Just(15), Just(50)], 0u64..1_000_000, prop::bool::weighted(0.2))
        })
        .prop_map(|(keylen, nkeys, runs, bloom, prefix, seed, ts_span, del_pct, blob_size, all_keys)| {
            let mut versions = vec![1u16; nkeys];
            let mut budget = 6000usize.saturating_sub(nkeys);
            for (sel, run) in runs {
                let i = crate::damage::pick(sel, nkeys);
                let r = (run as usize).min(budget.max(1));
                budget = budget.saturating_sub(r);
                versions[i] = r as u16;
            }
            IdxCase { keylen, bloom, prefix, versions, seed, ts_span, del_pct, blob_size, all_keys, rev_order: matches!(keylen, 8 | 33 | 400) && seed % 3 == 0 }
        })
        .boxed()
}

/// A key type whose order is NOT the lexicographic byte order: bytes are compared from the last to the first
/// (a little-endian integer compared numerically). The index must use the key type's order everywhere.
#[derive(Debug, Clone, PartialEq, Eq)]
pub struct RevKey<const N: usize>([u8; N]);

impl<const N: usize> Default for RevKey<N> {
    fn default() -> Self {
        Self([0; N])
    }
}
impl<const N: usize> AsRef<[u8]> for RevKey<N> {
    fn as_ref(&self) -> &[u8] {
        &self.0
    }
}
impl<const N: usize> From<Vec<u8>> for RevKey<N> {
    fn from(v: Vec<u8>) -> Self {
        Self(v.try_into().expect("size mismatch"))
    }
}
impl<const N: usize> From<&[u8]> for RevKey<N> {
    fn from(a: &[u8]) -> Self {
        Self(a.try_into().expect("size mismatch"))
    }
}
impl<const N: usize> PartialOrd for RevKey<N> {
    fn partial_cmp(&self, rhs: &Self) -> Option<std::cmp::Ordering> {
        Some(self.cmp(rhs))
    }
}
impl<const N: usize> Ord for RevKey<N> {
    fn cmp(&self, rhs: &Self) -> std::cmp::Ordering {
        self.0.iter().rev().cmp(rhs.0.iter().rev())
    }
}
#[derive(Debug, PartialEq, Eq)]
pub struct RevRef<'a>(&'a [u8]);
impl<'a> From<&'a [u8]> for RevRef<'a> {
    fn from(v: &'a [u8]) -> Self {
        Self(v)
    }
}
impl<'a> PartialOrd for RevRef<'a> {
    fn partial_cmp(&self, rhs: &Self) -> Option<std::cmp::Ordering> {
        Some(self.cmp(rhs))
    }
}
impl<'a> Ord for RevRef<'a> {
    fn cmp(&self, rhs: &Self) -> std::cmp::Ordering {
        self.0.iter().rev().cmp(rhs.0.iter().rev())
    }
}
impl<'a> pearl::RefKey<'a> for RevRef<'a> {}
impl<'a, const N: usize> pearl::Key<'a> for RevKey<N> {
    const LEN: u16 = N as u16;
    const MEM_SIZE: usize = N;
    type Ref = RevRef<'a>;
}

fn klen<K>() -> usize
where
    for<'a> K: pearl::Key<'a>,
{
    <K as pearl::Key<'static>>::LEN as usize
}

#[derive(Clone, Debug)]
struct MRec {
    ts: u64,
    deleted: bool,
    blob_offset: u64,
    push: usize,
}

fn rank(recs: &[MRec]) -> Vec<MRec> {
    let mut v = recs.to_vec();
    v.sort_by(|a, b| b.ts.cmp(&a.ts).then(b.push.cmp(&a.push)));
    v
}
fn cut(r: Vec<MRec>) -> Vec<MRec> {
    let mut out = vec![];
    for x in r {
        let d = x.deleted;
        out.push(x);
        if d {
            break;
        }
    }
    out
}

fn fail<T>(clause: &str, detail: String) -> Result<T, Failure> {
    Err(Failure { clause: clause.into(), detail, step: 0, op: String::new() })
}

fn hv(h: &Hdr) -> (u64, bool, u64) {
    (h.timestamp, h.deleted, h.blob_offset)
}
fn mv(m: &MRec) -> (u64, bool, u64) {
    (m.ts, m.deleted, m.blob_offset)
}

async fn check_key<K>(p: &IndexProbe<K>, stage: &str, key: &[u8], exp: Option<&Vec<MRec>>, q: &mut u64) -> Result<(), Failure>
where
    for<'a> K: pearl::Key<'a> + 'static,
{
    let ranked = exp.map(|r| rank(r)).unwrap_or_default();
    let exp_dm = cut(ranked.clone());
    let exp_all: Vec<MRec> = exp_dm.iter().filter(|m| !m.deleted).cloned().collect();
    *q += 3;
    let got_dm = match p.get_all_with_deletion_marker(key).await {
        Ok(g) => g,
        Err(e) => return fail(&format!("index/{}/get_all_with_deletion_marker-err", stage), format!("key {:?}: {:#}", tail(key), e)),
    };
    if got_dm.iter().map(hv).collect::<Vec<_>>() != exp_dm.iter().map(mv).collect::<Vec<_>>() || got_dm.iter().any(|h| h.key != key) {
        return fail(&format!("index/{}/get_all_with_deletion_marker", stage), format!("key {:?}: got {:?} expected {:?}", tail(key), got_dm.iter().map(hv).collect::<Vec<_>>(), exp_dm.iter().map(mv).collect::<Vec<_>>()));
    }
    let got_all = match p.get_all(key).await {
        Ok(g) => g,
        Err(e) => return fail(&format!("index/{}/get_all-err", stage), format!("key {:?}: {:#}", tail(key), e)),
    };
    if got_all.iter().map(hv).collect::<Vec<_>>() != exp_all.iter().map(mv).collect::<Vec<_>>() {
        return fail(&format!("index/{}/get_all", stage), format!("key {:?}: got {} headers expected {}", tail(key), got_all.len(), exp_all.len()));
    }
    let got_latest = match p.get_latest(key).await {
        Ok(g) => g,
        Err(e) => return fail(&format!("index/{}/get_latest-err", stage), format!("key {:?}: {:#}", tail(key), e)),
    };
    let ok = match (&got_latest, ranked.first()) {
        (Latest::NotFound, None) => true,
        (Latest::Deleted(ts), Some(m)) => m.deleted && *ts == m.ts,
        (Latest::Found(h), Some(m)) => !m.deleted && hv(h) == mv(m) && h.key == key,
        _ => false,
    };
    if !ok {
        return fail(&format!("index/{}/get_latest", stage), format!("key {:?}: got {:?} expected {:?}", tail(key), got_latest, ranked.first().map(mv)));
    }
    Ok(())
}

fn tail(k: &[u8]) -> &[u8] {
    &k[k.len().saturating_sub(4)..]
}

async fn run_n<K>(c: &IdxCase, dir: &Path) -> Result<CaseOut, Failure>
where
    for<'a> K: pearl::Key<'a> + 'static,
{
    #[allow(non_snake_case)]
    let N: usize = klen::<K>();
    let _ = std::fs::create_dir_all(dir);
    let bloom = if c.bloom { Some(BloomConfig { elements: 50, hashers_count: 2, max_buf_bits_count: 1237, buf_increase_step: 1, preferred_false_positive_rate: 0.01 }) } else { None };
    let mut probe: IndexProbe<K> = IndexProbe::new(dir, "t", 0, bloom.clone());
    let nkeys = c.versions.len();
    // build the record list and shuffle the push order
    let mut rng = Lcg(c.seed | 1);
    let mut order: Vec<usize> = vec![];
    for (i, v) in c.versions.iter().enumerate() {
        for _ in 0..*v {
            order.push(i);
        }
    }
    for i in (1..order.len()).rev() {
        let j = rng.below(i as u64 + 1) as usize;
        order.swap(i, j);
    }
    let mut model: BTreeMap<usize, Vec<MRec>> = BTreeMap::new();
    for (push, ki) in order.iter().enumerate() {
        let ts = rng.below(c.ts_span as u64);
        let deleted = rng.below(100) < c.del_pct as u64;
        let blob_offset = 20 + push as u64 * 100;
        let key = key_bytes(N, c.prefix, 2 * *ki as u32 + 1);
        let h = Hdr { key, timestamp: ts, deleted, blob_offset, meta_size: 8, data_size: if deleted { 0 } else { 10 } };
        if let Err(e) = probe.push(&h) {
            return fail("index/push-err", format!("{:#}", e));
        }
        model.entry(*ki).or_default().push(MRec { ts, deleted, blob_offset, push });
    }
    let total = order.len();
    // which keys to query
    let mut qkeys: BTreeSet<usize> = BTreeSet::new();
    if c.all_keys || nkeys <= 300 {
        qkeys.extend(0..nkeys);
    } else {
        let stride = (nkeys / 150).max(1);
        let off = (c.seed % stride as u64) as usize;
        qkeys.extend((off..nkeys).step_by(stride));
        qkeys.extend(0..3);
        qkeys.extend(nkeys - 3..nkeys);
        for (i, v) in c.versions.iter().enumerate() {
            if *v > 1 {
                qkeys.extend(i.saturating_sub(1)..(i + 2).min(nkeys));
            }
        }
        // keys around leaf boundaries: with one version per key every per_block-th key starts a leaf
        let pb = per_block(N);
        let mut i = pb;
        while i < nkeys && qkeys.len() < 600 {
            qkeys.insert(i - 1);
            qkeys.insert(i);
            i += pb * ((nkeys / pb / 40).max(1));
        }
    }
    let mut q = 0u64;
    let absent = |probe_i: usize| -> Vec<u8> { key_bytes(N, c.prefix, 2 * probe_i as u32) };
    // "redumped": the index that was loaded back from the file is written out again (what happens after a delete into a
    // closed blob) - the second file has to be as complete as the first one
    let stages: [&str; 5] = ["memory", "disk", "reloaded", "redumped", "reopened"];
    let mut file_len = 0u64;
    for stage in stages {
        match stage {
            "memory" => {}
            "disk" => {
                match probe.dump(c.blob_size).await {
                    Ok(n) => file_len = n as u64,
                    Err(e) => return fail("index/dump-err", format!("{:#}", e)),
                }
                if !probe.on_disk() {
                    return fail("index/dump-not-on-disk", "dump returned Ok but the index is still in memory".into());
                }
            }
            "reloaded" => {
                if let Err(e) = probe.load(c.blob_size).await {
                    return fail("index/load-err", format!("{:#}", e));
                }
                if probe.on_disk() {
                    return fail("index/load-still-on-disk", "load returned Ok but the index is still on disk".into());
                }
            }
            "redumped" => {
                if let Err(e) = probe.dump(c.blob_size).await {
                    return fail("index/redump-err", format!("{:#}", e));
                }
                if !probe.on_disk() {
                    return fail("index/dump-not-on-disk", "second dump returned Ok but the index is still in memory".into());
                }
            }
            _ => {
                probe = match IndexProbe::from_file(dir, "t", 0, bloom.clone(), c.blob_size).await {
                    Ok(p) => p,
                    Err(e) => return fail("index/from_file-err", format!("{:#}", e)),
                };
            }
        }
        if probe.count() != total {
            return fail(&format!("index/{}/count", stage), format!("count {} expected {}", probe.count(), total));
        }
        for ki in &qkeys {
            let key = key_bytes(N, c.prefix, 2 * *ki as u32 + 1);
            check_key(&probe, stage, &key, model.get(ki), &mut q).await?;
            // absent key right below this one (below the minimum for ki == 0)
            if N > 1 || *ki < 127 {
                check_key(&probe, stage, &absent(*ki), None, &mut q).await?;
            }
        }
        // above the maximum
        if 2 * nkeys + 2 < (1usize << (8 * N.min(3))) {
            check_key(&probe, stage, &key_bytes(N, c.prefix, 2 * nkeys as u32), None, &mut q).await?;
            check_key(&probe, stage, &key_bytes(N, c.prefix, 2 * nkeys as u32 + 2), None, &mut q).await?;
        }
    }
    // shape classification from the file that was written
    let mut labels = BTreeSet::new();
    let hs = 57 + N;
    let leaves_bytes = total * hs;
    let pb = per_block(N);
    if let Ok(bytes) = std::fs::read(dir.join("t.0.index")) {
        if let Some(l) = crate::blobfmt::index_layout(&bytes) {
            let tree_bytes = l.leaves_offset - l.tree_offset;
            let node_levels = if tree_bytes == 0 { 0 } else if tree_bytes <= BLOCK as u64 { 1 } else {
                // nodes are smaller than a block; count levels by fan-out
                let leaves = ((nkeys + pb - 1) / pb).max(1);
                let fan = fanout(N);
                let mut lv = 0;
                let mut n = leaves;
                while n > 1 {
                    n = (n + fan - 1) / fan;
                    lv += 1;
                }
                lv
            };
            if node_levels >= 2 {
                labels.insert("ge2_node_levels".to_string());
            }
            if node_levels >= 3 {
                labels.insert("ge3_node_levels".to_string());
            }
            if node_levels >= 5 {
                labels.insert("ge5_node_levels".to_string());
            }
            let _ = file_len;
        }
    }
    if c.versions.iter().any(|v| *v as usize > pb) {
        labels.insert("run_longer_than_block".to_string());
    }
    if c.versions.iter().any(|v| *v as usize == pb || *v as usize == 2 * pb) {
        labels.insert("run_fills_block_exactly".to_string());
    }
    if leaves_bytes % BLOCK != 0 && leaves_bytes > BLOCK {
        labels.insert("short_last_leaf".to_string());
    }
    if BLOCK % hs == 0 {
        labels.insert("header_divides_block".to_string());
    }
    labels.insert(format!("keylen_{}", N));
    if c.rev_order {
        labels.insert("non_lexicographic_key_order".to_string());
    }
    let nontrivial = labels.contains("ge2_node_levels") || labels.contains("run_longer_than_block") || labels.contains("short_last_leaf");
    let mut stats = Stats::default();
    stats.queries = q;
    stats.steps = total as u64;
    Ok(CaseOut { nontrivial, labels, stats, known_hits: Default::default(), weight: 1 })
}

pub fn run_idx(c: &IdxCase, dir: &Path) -> Result<CaseOut, Failure> {
    let rt = tokio::runtime::Builder::new_multi_thread().worker_threads(1).build().expect("rt");
    macro_rules! go {
        ($($n:literal),*) => {
            match c.keylen {
                $($n => rt.block_on(run_n::<ArrayKey<$n>>(c, dir)),)*
                n => fail("index/unsupported-keylen", format!("{}", n)),
            }
        };
    }
    if c.rev_order {
        // the key type with the non-lexicographic order, for a few key lengths (fan-out 256 / 100 / 11)
        return match c.keylen {
            8 => rt.block_on(run_n::<RevKey<8>>(c, dir)),
            33 => rt.block_on(run_n::<RevKey<33>>(c, dir)),
            400 => rt.block_on(run_n::<RevKey<400>>(c, dir)),
            n => fail("index/unsupported-keylen", format!("rev order {}", n)),
        };
    }
    go!(1, 2, 3, 4, 5, 6, 7, 8, 16, 33, 48, 65, 71, 100, 138, 284, 400, 576, 1000, 2000, 2040, 4000)
}

fn sample(c: &IdxCase) -> Value {
    let runs: Vec<(usize, u16)> = c.versions.iter().enumerate().filter(|(_, v)| **v > 1).map(|(i, v)| (i, *v)).collect();
    json!({"keylen": c.keylen, "keys": c.versions.len(), "headers": c.versions.iter().map(|v| *v as usize).sum::<usize>(), "runs(key_index,versions)": runs, "ts_span": c.ts_span, "deleted_pct": c.del_pct, "bloom": c.bloom, "per_block": per_block(c.keylen), "fanout": fanout(c.keylen)})
}

/// Systematic shapes: key counts around every power of the fan-out, runs around block boundaries
fn sweep_cases(thorough: bool) -> Vec<IdxCase> {
    let mut out = vec![];
    for &keylen in PROBE_KEYLENS {
        let pb = per_block(keylen);
        let fan = fanout(keylen);
        let cap = max_keys(keylen);
        let mut counts: BTreeSet<usize> = BTreeSet::new();
        for base in [1usize, pb, 2 * pb, pb * fan, pb * fan * 2, pb * (fan + 1), pb * fan * fan, pb * fan * fan * fan, pb * fan.pow(4), pb * fan.saturating_pow(5), pb * fan.saturating_pow(6)] {
            for d in [-2i64, -1, 0, 1, 2] {
                let n = base as i64 + d;
                if n >= 1 && (n as usize) <= cap {
                    counts.insert(n as usize);
                }
            }
        }
        if thorough {
            // every key count up to three blocks, then a stride up to the cap
            counts.extend(1..=(3 * pb + 2).min(cap));
            let mut n = 3 * pb;
            while n <= cap {
                counts.insert(n);
                n += (pb * fan / 7).max(1);
            }
        }
        for n in counts {
            let runs: Vec<u16> = if thorough { vec![1, pb as u16 - 1, pb as u16, pb as u16 + 1, 2 * pb as u16, 2 * pb as u16 + 1] } else { vec![1, pb as u16, pb as u16 + 1] };
            for run in runs {
                if run == 0 || (run as usize) * 1 + n > 7000 {
                    continue;
                }
                for pos in [0usize, n / 2, n - 1] {
                    if run == 1 && pos != 0 {
                        continue;
                    }
                    let mut versions = vec![1u16; n];
                    versions[pos] = run;
                    out.push(IdxCase { keylen, bloom: n % 2 == 0, prefix: 0x55, versions, seed: (n as u64) << 8 | run as u64, ts_span: 2, del_pct: 15, blob_size: 12345, all_keys: n <= 400, rev_order: matches!(keylen, 8 | 33 | 400) && (n + run as usize) % 2 == 0 });
                }
            }
        }
    }
    out
}

/// Hook-free variant: the same shapes through the public API. Long keys (fan-out 11 / 38), up to 250 distinct keys
/// with a few long version runs, written into one blob that is then closed and dumped; every query for every key
/// is compared with the reference model (index on disk), then again after a restart with the index kept / removed.
fn storage_tree_strategy() -> BoxedStrategy<crate::ops::Case> {
    use crate::ops::*;
    (prop::sample::select(&[100usize, 400][..]), 20u8..250, prop::collection::vec((any::<u8>(), 2u16..40), 0..4), any::<u64>(), any::<bool>(), any::<bool>())
        .prop_map(|(keylen, nkeys, runs, seed, lazy, remove_idx)| {
            let mut r = Lcg(seed | 1);
            let mut ops = vec![];
            let mut order: Vec<u8> = (0..nkeys).collect();
            for (k, n) in &runs {
                for _ in 0..*n {
                    order.push(k % nkeys);
                }
            }
            for i in (1..order.len()).rev() {
                let j = r.below(i as u64 + 1) as usize;
                order.swap(i, j);
            }
            for k in order {
                if r.below(12) == 0 {
                    ops.push(Op::Delete { key: k, ts: r.below(4), meta: 0, only_if: false });
                } else {
                    ops.push(Op::Write { key: k, ts: r.below(4), meta: (r.below(3)) as u8, vlen: 6 + r.below(20) as u32, fill: 0 });
                }
            }
            ops.push(Op::Switch);
            ops.push(Op::WaitIdle);
            ops.push(Op::Write { key: 0, ts: 1, meta: 0, vlen: 5, fill: 0 });
            ops.push(Op::Reopen { lazy, remove_all_idx: remove_idx, damage: vec![] });
            Case { cfg: crate::sut::Cfg { keylen, allow_dup: true, defer_ms: (2, 5), ..crate::sut::Cfg::default() }, ops }
        })
        .boxed()
}

fn run_storage_tree(c: &crate::ops::Case, dir: &Path, findings: &crate::findings::Findings) -> Result<CaseOut, Failure> {
    use crate::interp::{Checks, Exec};
    let nkeys = c.ops.iter().filter_map(|o| match o { crate::ops::Op::Write { key, .. } | crate::ops::Op::Delete { key, .. } => Some(*key), _ => None }).max().unwrap_or(0);
    let rt = c.cfg.runtime();
    let res = rt.block_on(async {
        let mut ex = Exec::new(c.cfg.clone(), dir.to_path_buf(), Checks { read: true, versions: true, counts: true, ..Default::default() }, nkeys, 2, findings);
        ex.start().await?;
        for (i, op) in c.ops.iter().enumerate() {
            ex.apply(i, op).await?;
            // the full comparison for every key is expensive: do it when the tree is on disk and after the restart
            if matches!(op, crate::ops::Op::WaitIdle | crate::ops::Op::Reopen { .. }) {
                ex.check().await?;
            }
        }
        ex.close().await?;
        let mut labels: BTreeSet<String> = ex.labels.iter().map(|s| s.to_string()).collect();
        labels.insert(format!("storage_keylen_{}", c.cfg.keylen));
        let leaves = (nkeys as usize + 1 + per_block(c.cfg.keylen) - 1) / per_block(c.cfg.keylen);
        if leaves > fanout(c.cfg.keylen) {
            labels.insert("storage_ge2_node_levels".to_string());
        }
        Ok(CaseOut { nontrivial: leaves > fanout(c.cfg.keylen), labels, stats: ex.stats.clone(), known_hits: Default::default(), weight: 1 })
    });
    drop(rt);
    res
}

pub fn run(ctx: &RunCtx) -> PropResult {
    let mut report = Report::default();
    {
        let findings = ctx.findings.clone();
        let runf = |c: &crate::ops::Case, d: &Path| run_storage_tree(c, d, &findings);
        run_generated(ctx, "storage-tree", ctx.tier.pick(200, 6000), storage_tree_strategy, runf, &crate::props::history::sample_case, &mut report);
    }
    run_replays::<IdxCase, _>(ctx, "index", &ctx.verif_dir.join("replays").join("C09"), run_idx, &mut report);
    run_generated(ctx, "index", ctx.tier.pick(6000, 120_000), idx_strategy, run_idx, &sample, &mut report);
    let sweep = sweep_cases(ctx.tier == Tier::Thorough);
    run_enumerated(ctx, "index-sweep", sweep, run_idx, &sample, &mut report);
    PropResult {
        report,
        level: "exploration",
        rule: "Header multisets pushed through the IndexProbe hook into the crate-private index: key length from {1,2,3,4,5,6,7,8,16,33,48,65,71,100,138,284,400,576,1000} (fan-out 454..5; 7 and 71 make the serialized header divide the 4 KiB block; 3,5,6,48,65,138,284,576 are the lengths where an inner node with one more child would still fit if the extra pointer were forgotten), key counts drawn around 1, one block, fan-out and fan-out^2 blocks (up to 3000 keys / 6000 headers), up to 4 keys with version runs of 2, 3, block-1, block, block+1, 2 blocks, 2 blocks+1 or 1..300, timestamps from 1-4 values (heavy ties), 0/15/50 % deletion markers, shuffled push order. For key lengths 8 / 33 / 400 a third (sweep: half) of the cases use a key type whose order is not the byte order (bytes compared from the last to the first, i.e. a little-endian integer compared numerically): every comparison inside the file index has to go through the key type. Oracle: get_latest, get_all, get_all_with_deletion_marker and count in five stages (in memory, dumped to file, loaded back, dumped again from the loaded index, opened from file) against a sorted-list model (timestamp desc, later push first, cut after first marker) for present keys, the absent key below each of them, below the minimum and above the maximum. A hook-free phase (storage-tree) drives 20-250 distinct keys of 100 / 400 bytes (fan-out 38 / 11, i.e. two node levels) with version runs through Storage (write, switch, wait for the dump, restart with index kept or removed) and compares every query for every key with the reference model. A second, enumerated phase sweeps key counts around every power of the fan-out and runs around block boundaries per key length. Non-trivial = >=2 node levels above the leaves, or a version run longer than a block, or a last leaf shorter than a block. distinct = FNV hash of the serialized case.".into(),
        assumptions: {
            let mut a = common_assumptions();
            a.push("IndexProbe (src/verif.rs) builds headers from a bincode mirror of record::Header and calls Index::push/dump/load/get_* unchanged".into());
            a
        },
    }
}

pub fn replay_other(phase: &str, case: &Value, dir: &Path) -> Option<Result<CaseOut, Failure>> {
    if phase == "storage-tree" {
        let f = crate::findings::Findings::default();
        let runf = |c: &crate::ops::Case, d: &Path| run_storage_tree(c, d, &f);
        return serde_json::from_value::<crate::ops::Case>(case.clone()).ok().map(|c| guarded(&c, dir, &runf));
    }
    if phase.starts_with("index") {
        serde_json::from_value::<IdxCase>(case.clone()).ok().map(|c| guarded(&c, dir, &run_idx))
    } else {
        None
    }
}
