//! C02 Version history, metadata lookup, deletion and duplicate-write semantics.
use super::history::*;
use super::{common_assumptions, PropResult};
use crate::interp::Checks;
use crate::ops::GenParams;
use crate::runner::*;
use crate::sut::KEY_LENS;
use std::collections::BTreeSet;

fn nt(l: &BTreeSet<String>) -> bool {
    has(l, "cut_multi_blob_with_marker") || has(l, "read_with_other_blob")
}

pub fn profile() -> Profile {
    Profile {
        id: "C02",
        phase: "history",
        checks: Checks { read: true, versions: true, counts: true, ..Default::default() },
        gen: GenParams { nkeys: 4, ts_span: 5, metas: 4, max_ops: 50, w_write: 40, w_delete: 24, w_switch: 14, w_wait: 5, w_reopen: 4, ..Default::default() },
        keylens: KEY_LENS,
        short_defer: true,
        nt,
    }
}

pub fn run(ctx: &RunCtx) -> PropResult {
    let mut report = Report::default();
    let p = profile();
    run_profile(ctx, &p, ctx.tier.pick(6000, 100_000), &mut report);
    // long histories over two keys: version lists of 20-100 entries per key (longer than an index block for long keys),
    // spread over several blobs, heavy timestamp ties, markers deep inside the list
    let mut p2 = profile();
    p2.phase = "history-deep";
    p2.gen = GenParams { nkeys: 2, ts_span: 3, metas: 3, max_ops: ctx.tier.pick(110, 220) as usize, w_write: 64, w_delete: 8, w_switch: 10, w_wait: 4, w_reopen: 5, ..Default::default() };
    run_profile(ctx, &p2, ctx.tier.pick(500, 12_000), &mut report);
    let mut p3 = profile();
    p3.phase = "history-scale";
    p3.gen = GenParams { nkeys: 3, ts_span: 4, metas: 3, max_ops: 12, w_write: 40, w_delete: 25, w_switch: 10, w_wait: 5, w_reopen: 12, ..Default::default() };
    run_profile_scale(ctx, &p3, ctx.tier.pick(48, 1200), &mut report);
    PropResult {
        report,
        level: "exploration",
        rule: "proptest histories as for C01 with metadata on puts and markers (pool of 3 metas + none), both only_if_presented values, both duplicate policies; after EVERY step, for every pool key: read_all_with_deletion_marker and read_all (every entry loaded: timestamp, deleted flag, data bytes, meta), read_with for every pool meta and one never-written meta (classification + bytes), the u64 returned by every delete, and per-blob record counts (a suppressed duplicate write must not store anything) compared with the reference model. A second phase (history-deep) runs histories of up to 110 (thorough: 220) steps over two keys, so that version lists of 20-100 entries per key arise, spread over several blobs and longer than an index block for long keys. Non-trivial = a key whose cut list draws from >=2 blobs and ends in a marker, or a read_with whose match lies in another blob than the first-ranked record. distinct = FNV hash of the serialized case.".into(),
        assumptions: common_assumptions(),
    }
}
