//! C08 Concurrent clients: linearizable results, no lost or torn records.
use super::{common_assumptions, PropResult};
use crate::blobfmt;
use crate::findings::Findings;
use crate::interp::{Failure, Stats};
use crate::runner::*;
use crate::sut::{self, key_bytes, Bloom, Cfg, LoadMode, Pred, Sut, RR};
use bytes::Bytes;
use proptest::prelude::*;
use serde::{Deserialize, Serialize};
use serde_json::{json, Value};
use std::collections::{BTreeMap, BTreeSet};
use std::path::Path;
use std::sync::atomic::{AtomicBool, AtomicU64, Ordering::SeqCst};
use std::sync::{Arc, Mutex};
use std::time::Duration;

pub const DEADLOCK: &str = "conc/deadlock-channel-backpressure";

#[derive(Clone, Debug, Serialize, Deserialize)]
pub struct ConcCase {
    pub cfg: Cfg,
    pub seed: u64,
    pub nclients: u16,
    pub nkeys: u8,
    pub steps: u16,
    /// the active blob is a reopened one
    pub reopen_first: bool,
    /// 0 none, 1 atomic switches only (force_update, fsync, free), 2 also manual close+create / restore
    pub maintenance: u8,
    /// clients sleep 0..perturb_us between steps now and then
    pub perturb_us: u16,
    /// burst scenario: every client issues exactly one write at the same moment
    pub burst: bool,
}

struct Lcg(u64);
impl Lcg {
    fn next(&mut self) -> u64 {
        self.0 ^= self.0 << 13;
        self.0 ^= self.0 >> 7;
        self.0 ^= self.0 << 17;
        self.0
    }
    fn below(&mut self, n: u64) -> u64 {
        self.next() % n.max(1)
    }
}

#[derive(Clone, Debug)]
enum Ev {
    /// a put or a delete marker; ok=false: the call returned Err (possibly applied, never acknowledged)
    Write { key: u8, ts: u64, inv: u64, resp: u64, del: bool, ok: bool, len: usize },
    Read { key: u8, inv: u64, resp: u64, got: Option<(u64, bool)>, kind: &'static str },
}

fn value_for(ts: u64, client: u16, len: usize) -> Vec<u8> {
    let mut v = Vec::with_capacity(len.max(10));
    v.extend_from_slice(&ts.to_be_bytes());
    v.extend_from_slice(&client.to_be_bytes());
    while v.len() < len {
        v.push((ts as usize * 31 + v.len() * 7) as u8);
    }
    v
}

fn ts_of(d: &[u8]) -> Option<u64> {
    if d.len() < 8 {
        return None;
    }
    Some(u64::from_be_bytes(d[..8].try_into().ok()?))
}

fn fail<T>(clause: &str, detail: String) -> Result<T, Failure> {
    Err(Failure { clause: clause.into(), detail, step: 0, op: String::new() })
}

pub fn conc_strategy() -> BoxedStrategy<ConcCase> {
    let cfg = (prop::sample::select(&[8usize, 33][..]), prop_oneof![Just(0usize), Just(2usize), Just(8usize)], 20u64..80, prop_oneof![Just(None), Just(Some(0u64)), Just(Some(4096u64))]).prop_map(|(keylen, rt_workers, maxrec, dirty_limit)| Cfg { keylen, rt_workers, max_data_in_blob: maxrec, dirty_limit, allow_dup: true, defer_ms: (2, 5), ..Cfg::default() });
    (cfg, any::<u64>(), prop_oneof![Just(2u16), Just(4), Just(8), Just(32), Just(200)], 3u8..9, any::<bool>(), 0u8..3, prop_oneof![Just(0u16), Just(300), Just(2000)])
        .prop_map(|(cfg, seed, nclients, nkeys, reopen_first, maintenance, perturb_us)| {
            let steps = (6000 / nclients.max(1)).clamp(12, 400);
            ConcCase { cfg, seed, nclients, nkeys, steps, reopen_first, maintenance, perturb_us, burst: false }
        })
        .boxed()
}

pub fn run_conc(c: &ConcCase, dir: &Path, findings: &Findings) -> Result<CaseOut, Failure> {
    let rt = c.cfg.runtime();
    let _ = std::fs::remove_dir_all(dir);
    let out = rt.block_on(run_inner(c, dir, findings));
    rt.shutdown_background();
    out
}

async fn run_inner(c: &ConcCase, dir: &Path, findings: &Findings) -> Result<CaseOut, Failure> {
    let keylen = c.cfg.keylen;
    let mut s = match sut::open(&c.cfg, dir, false).await {
        Ok(s) => s,
        Err(e) => return fail("init/err", format!("{:#}", e)),
    };
    if c.reopen_first {
        if let Err(e) = s.write(&key_bytes(keylen, 250), Bytes::from_static(b"seed-record"), 0, None).await {
            return fail("write/err", format!("{:#}", e));
        }
        if let Err(e) = s.close().await {
            return fail("close/err", format!("{:#}", e));
        }
        s = match sut::open(&c.cfg, dir, false).await {
            Ok(s) => s,
            Err(e) => return fail("init/err", format!("{:#}", e)),
        };
    }
    let blobs_at_start = s.blobs_count().await;
    if c.burst {
        // fill the active blob to its limit and let it age past the rotation debounce: every burst write then asks for a switch
        for i in 0..c.cfg.max_data_in_blob {
            let _ = s.write(&key_bytes(keylen, 251), Bytes::from_static(b"fill"), i, None).await;
        }
        tokio::time::sleep(Duration::from_millis(230)).await;
    }
    let s: Arc<Box<dyn Sut>> = Arc::new(s);
    let clock = Arc::new(AtomicU64::new(1_000));
    let log = Arc::new(Mutex::new(Vec::<Ev>::new()));
    let done_ops = Arc::new(AtomicU64::new(0));
    let acked_puts = Arc::new(AtomicU64::new(0));
    let acked_per_key: Arc<Vec<AtomicU64>> = Arc::new((0..256).map(|_| AtomicU64::new(0)).collect());
    let start_gate = Arc::new(tokio::sync::Notify::new());
    let mut hs = vec![];
    for cl in 0..c.nclients {
        let s = s.clone();
        let clock = clock.clone();
        let log = log.clone();
        let done_ops = done_ops.clone();
        let acked_puts = acked_puts.clone();
        let acked_per_key = acked_per_key.clone();
        let c = c.clone();
        let gate = start_gate.clone();
        hs.push(tokio::spawn(async move {
            let mut r = Lcg((c.seed.wrapping_mul(1_000_003) + cl as u64 * 7919) | 1);
            let mut evs = vec![];
            if c.burst {
                gate.notified().await;
            }
            let steps = if c.burst { 1 } else { c.steps };
            for step in 0..steps {
                let key = r.below(c.nkeys as u64) as u8;
                let kb = key_bytes(c.cfg.keylen, key);
                let op = if c.burst { 0 } else { r.below(22) };
                if op == 21 {
                    // filter probes concurrent with writers, rotations and close / restore: a key with an acknowledged put is never denied
                    let had = acked_per_key[key as usize].load(SeqCst) > 0;
                    let cf = s.check_filters(&kb).await;
                    let bf = s.check_filter(&kb).await;
                    if had && cf == Some(false) {
                        return Err(format!("check_filters/false-negative: key {} has an acknowledged put, check_filters says Some(false)", key));
                    }
                    if had && !bf {
                        return Err(format!("check_filter/false-negative: key {} has an acknowledged put, BloomProvider::check_filter says NotContains", key));
                    }
                } else if op == 20 {
                    // a count query concurrent with writers and rotations: every put acknowledged before the call is in some blob
                    let lo = acked_puts.load(SeqCst);
                    let got = s.records_count().await as u64;
                    if got < lo {
                        return Err(format!("records_count/torn: records_count() = {} although {} puts had been acknowledged before the call started", got, lo));
                    }
                } else if op < 8 {
                    let len = match r.below(10) {
                        0 => 5000,
                        1 => 90_000,
                        _ => 10 + r.below(60) as usize,
                    };
                    let len = if c.burst { 16 } else { len };
                    let ts = clock.fetch_add(1, SeqCst);
                    let inv = clock.fetch_add(1, SeqCst);
                    let res = s.write(&kb, Bytes::from(value_for(ts, cl, len)), ts, None).await;
                    if res.is_ok() {
                        acked_puts.fetch_add(1, SeqCst);
                        acked_per_key[key as usize].fetch_add(1, SeqCst);
                    }
                    let resp = clock.fetch_add(1, SeqCst);
                    evs.push(Ev::Write { key, ts, inv, resp, del: false, ok: res.is_ok(), len: len.max(10) });
                } else if op < 10 {
                    let ts = clock.fetch_add(1, SeqCst);
                    let inv = clock.fetch_add(1, SeqCst);
                    let res = s.delete(&kb, ts, None, false).await;
                    let resp = clock.fetch_add(1, SeqCst);
                    evs.push(Ev::Write { key, ts, inv, resp, del: true, ok: res.is_ok(), len: 0 });
                } else if op < 15 {
                    let inv = clock.fetch_add(1, SeqCst);
                    let g = s.read(&kb).await;
                    let resp = clock.fetch_add(1, SeqCst);
                    match g {
                        Ok(RR::Found(d)) => evs.push(Ev::Read { key, inv, resp, got: Some((ts_of(&d).unwrap_or(u64::MAX), false)), kind: "read" }),
                        Ok(RR::Deleted(t)) => evs.push(Ev::Read { key, inv, resp, got: Some((t, true)), kind: "read" }),
                        Ok(RR::NotFound) => evs.push(Ev::Read { key, inv, resp, got: None, kind: "read" }),
                        Err(e) => return Err(format!("read/err: key {}: {:#}", key, e)),
                    }
                } else if op < 18 {
                    let inv = clock.fetch_add(1, SeqCst);
                    let g = s.contains(&kb).await;
                    let resp = clock.fetch_add(1, SeqCst);
                    match g {
                        Ok(RR::Found(t)) => evs.push(Ev::Read { key, inv, resp, got: Some((t, false)), kind: "contains" }),
                        Ok(RR::Deleted(t)) => evs.push(Ev::Read { key, inv, resp, got: Some((t, true)), kind: "contains" }),
                        Ok(RR::NotFound) => evs.push(Ev::Read { key, inv, resp, got: None, kind: "contains" }),
                        Err(e) => return Err(format!("contains/err: key {}: {:#}", key, e)),
                    }
                } else {
                    // read_all: the first entry is the top-ranked record
                    let inv = clock.fetch_add(1, SeqCst);
                    let g = s.read_all(&kb, true, LoadMode::Full).await;
                    let resp = clock.fetch_add(1, SeqCst);
                    match g {
                        Ok(list) => {
                            let mut prev: Option<u64> = None;
                            for e in &list {
                                match e {
                                    Ok(v) => {
                                        if let Some(p) = prev {
                                            if v.ts > p {
                                                return Err(format!("read_all/order: key {} timestamps not descending ({} after {})", key, v.ts, p));
                                            }
                                        }
                                        if !v.deleted && ts_of(&v.data) != Some(v.ts) {
                                            return Err(format!("read_all/bytes: key {} entry ts {} carries data of ts {:?}", key, v.ts, ts_of(&v.data)));
                                        }
                                        prev = Some(v.ts);
                                    }
                                    Err(e) => return Err(format!("read_all/load-err: key {}: {:#}", key, e)),
                                }
                            }
                            let got = list.first().and_then(|e| e.as_ref().ok()).map(|v| (v.ts, v.deleted));
                            evs.push(Ev::Read { key, inv, resp, got, kind: "read_all" });
                        }
                        Err(e) => return Err(format!("read_all/err: key {}: {:#}", key, e)),
                    }
                }
                done_ops.fetch_add(1, SeqCst);
                if c.perturb_us > 0 && r.below(3) == 0 {
                    tokio::time::sleep(Duration::from_micros(r.below(c.perturb_us as u64 + 1))).await;
                } else if step % 3 == 0 {
                    tokio::task::yield_now().await;
                }
            }
            log.lock().unwrap().extend(evs);
            Ok::<(), String>(())
        }));
    }
    // maintenance task
    let stop = Arc::new(AtomicBool::new(false));
    let maint = {
        let s = s.clone();
        let stop = stop.clone();
        let level = c.maintenance;
        let seed = c.seed;
        tokio::spawn(async move {
            let mut r = Lcg(seed | 1);
            let mut n = 0u32;
            while !stop.load(SeqCst) && level > 0 {
                tokio::time::sleep(Duration::from_millis(3 + r.below(25))).await;
                match r.below(if level >= 2 { 7 } else { 4 }) {
                    0 => {
                        s.force_update(Pred::Always).await;
                        n += 1;
                    }
                    1 => {
                        let _ = s.fsyncdata().await;
                    }
                    2 => {
                        let _ = s.free_excess_resources().await;
                    }
                    3 => s.force_update(Pred::Records3).await,
                    4 | 5 => {
                        if s.try_close_active().await.is_ok() {
                            let _ = s.try_create_active().await;
                            n += 1;
                        }
                    }
                    _ => {
                        if s.try_close_active().await.is_ok() {
                            let _ = s.try_restore_active().await;
                        }
                    }
                }
            }
            n
        })
    };
    if c.burst {
        tokio::time::sleep(Duration::from_millis(50)).await;
        start_gate.notify_waiters();
    }
    // wait for the clients; meanwhile look for the structural deadlock witness (never a timeout by itself)
    let mut witness = 0u32;
    let mut last_done = 0u64;
    let started = std::time::Instant::now();
    loop {
        if hs.iter().all(|h| h.is_finished()) {
            break;
        }
        tokio::time::sleep(Duration::from_millis(100)).await;
        let st = s.bg();
        let done = done_ops.load(SeqCst);
        let queue = st.sent.saturating_sub(st.received);
        if done == last_done && st.in_send > 0 && st.waiting_write_lock > 0 && queue >= 1000 {
            witness += 1;
        } else {
            witness = 0;
        }
        last_done = done;
        if witness >= 5 {
            let mut labels = BTreeSet::new();
            labels.insert("deadlock_witness".to_string());
            let mut known = BTreeSet::new();
            if findings.is_open(DEADLOCK) && c.burst {
                known.insert(DEADLOCK.to_string());
                return Ok(CaseOut { nontrivial: true, labels, stats: Stats::default(), known_hits: known, weight: 1 });
            }
            return fail("conc/deadlock", format!("no client made progress over 5 samples while {} senders wait for the full maintenance queue ({} queued) holding the storage read lock and the worker waits for the write lock: {:?}", st.in_send, queue, st));
        }
        if started.elapsed() > Duration::from_secs(240) {
            println!("INCONCLUSIVE property=C08 clients did not finish within 240 s (no deadlock witness)");
            std::process::exit(2);
        }
    }
    let mut client_errs = vec![];
    for h in hs {
        match h.await {
            Ok(Ok(())) => {}
            Ok(Err(e)) => client_errs.push(e),
            Err(e) => client_errs.push(format!("client task panicked: {}", e)),
        }
    }
    stop.store(true, SeqCst);
    let switches = maint.await.unwrap_or(0);
    if let Some(e) = client_errs.first() {
        let clause = e.split(':').next().unwrap_or("client").to_string();
        return fail(&format!("conc/{}", clause), e.clone());
    }
    let log: Vec<Ev> = log.lock().unwrap().clone();
    // ---- history check: per key a max-register ---------------------------------------------------------------
    let mut labels = BTreeSet::new();
    let mut overlap = 0u64;
    let mut nreads = 0u64;
    let total_writes = log.iter().filter(|e| matches!(e, Ev::Write { .. })).count();
    let failed_writes = log.iter().filter(|e| matches!(e, Ev::Write { ok: false, .. })).count();
    if failed_writes > 0 {
        // only a write racing a manual close of the active blob may fail (ActiveBlobNotSet is documented)
        if c.maintenance < 2 {
            return fail("conc/client-write-error", format!("{} of {} writes/deletes returned an error although the active blob is only ever replaced atomically", failed_writes, total_writes));
        }
        labels.insert("write_raced_manual_close".to_string());
        if failed_writes * 10 > total_writes {
            // too few acknowledged operations to mean anything
            return Ok(CaseOut { nontrivial: false, labels, stats: Stats::default(), known_hits: Default::default(), weight: 1 });
        }
    }
    for key in 0..c.nkeys {
        let ws: Vec<(u64, u64, u64, bool, bool)> = log.iter().filter_map(|e| if let Ev::Write { key: k, ts, inv, resp, del, ok, .. } = e { if *k == key { Some((*ts, *inv, *resp, *del, *ok)) } else { None } } else { None }).collect();
        let rs: Vec<(u64, u64, Option<(u64, bool)>, &str)> = log.iter().filter_map(|e| if let Ev::Read { key: k, inv, resp, got, kind } = e { if *k == key { Some((*inv, *resp, *got, *kind)) } else { None } } else { None }).collect();
        for (rinv, rresp, got, kind) in &rs {
            nreads += 1;
            let floor = ws.iter().filter(|w| w.4 && w.2 < *rinv).map(|w| w.0).max();
            if ws.iter().any(|w| w.1 < *rresp && w.2 > *rinv) {
                overlap += 1;
            }
            match got {
                None => {
                    if let Some(f) = floor {
                        return fail("conc/stale-read", format!("{} of key {} returned NotFound although the write with ts {} had been acknowledged before the call started", kind, key, f));
                    }
                }
                Some((ts, del)) => {
                    match ws.iter().find(|w| w.0 == *ts) {
                        None => return fail("conc/invented-value", format!("{} of key {} returned ts {} which no client wrote to that key", kind, key, ts)),
                        Some(w) => {
                            if w.3 != *del {
                                return fail("conc/kind-mismatch", format!("{} of key {} ts {}: deleted={} but the operation was deleted={}", kind, key, ts, del, w.3));
                            }
                            if w.1 > *rresp {
                                return fail("conc/read-from-future", format!("{} of key {} returned ts {} whose write was invoked after the read responded", kind, key, ts));
                            }
                        }
                    }
                    if let Some(f) = floor {
                        if *ts < f {
                            return fail("conc/stale-read", format!("{} of key {} returned ts {} although ts {} had been acknowledged before the call started", kind, key, ts, f));
                        }
                    }
                }
            }
        }
        // reads ordered in real time are monotone
        let mut by_inv = rs.clone();
        by_inv.sort_by_key(|r| r.0);
        let mut best_done: Vec<(u64, u64)> = vec![]; // (resp, ts) of finished reads
        for (inv, resp, got, kind) in &by_inv {
            let t = got.map(|x| x.0).unwrap_or(0);
            if let Some(m) = best_done.iter().filter(|(r, _)| r < inv).map(|(_, t)| *t).max() {
                if t < m {
                    return fail("conc/non-monotone-reads", format!("{} of key {} returned ts {} after an earlier completed read had returned ts {}", kind, key, t, m));
                }
            }
            best_done.push((*resp, t));
        }
    }
    // ---- quiescence: equals the sequential model ------------------------------------------------------------
    let _ = sut::wait_quiet(&**s, true, crate::interp::max_wait()).await;
    let st = s.bg();
    if !st.worker_alive() {
        return fail("bg/worker-dead", format!("{:?}", st));
    }
    let blobs_end = s.blobs_count().await;
    for key in 0..c.nkeys {
        let kb = key_bytes(keylen, key);
        let acked: Vec<(u64, bool)> = log.iter().filter_map(|e| if let Ev::Write { key: k, ts, del, ok: true, .. } = e { if *k == key { Some((*ts, *del)) } else { None } } else { None }).collect();
        let maybe: BTreeSet<u64> = log.iter().filter_map(|e| if let Ev::Write { key: k, ts, ok: false, .. } = e { if *k == key { Some(*ts) } else { None } } else { None }).collect();
        let list = match s.read_all(&kb, true, LoadMode::Full).await {
            Ok(l) => l,
            Err(e) => return fail("conc/final-read_all-err", format!("key {}: {:#}", key, e)),
        };
        let mut got: Vec<(u64, bool)> = vec![];
        for e in list {
            match e {
                Ok(v) => {
                    if !v.deleted && ts_of(&v.data) != Some(v.ts) {
                        return fail("conc/final-bytes", format!("key {} ts {} carries foreign data", key, v.ts));
                    }
                    got.push((v.ts, v.deleted));
                }
                Err(e) => return fail("conc/final-load-err", format!("key {}: {:#}", key, e)),
            }
        }
        // expected: acknowledged records by ts descending, cut after the first marker; unacknowledged ones may appear
        let mut exp: Vec<(u64, bool)> = acked.clone();
        exp.sort_by(|a, b| b.0.cmp(&a.0));
        if !maybe.is_empty() {
            continue; // an unacknowledged operation on this key may or may not be part of the final state
        }
        let got_acked: Vec<(u64, bool)> = got.clone();
        let mut exp_cut = vec![];
        for e in &exp {
            exp_cut.push(*e);
            if e.1 {
                break;
            }
        }
        // several markers of one delete (one per blob) share a timestamp: only the first is listed
        let mut got_dedup = got_acked.clone();
        got_dedup.dedup();
        if got_dedup != exp_cut {
            return fail("conc/final-state", format!("key {}: read_all_with_deletion_marker lists {:?}, the acknowledged operations imply {:?} (lost or resurrected record)", key, &got_dedup[..got_dedup.len().min(6)], &exp_cut[..exp_cut.len().min(6)]));
        }
    }
    // ---- files: records tile every blob, offsets are positions, nothing invented, nothing lost ------------------
    let s = match Arc::try_unwrap(s) {
        Ok(s) => s,
        Err(_) => return fail("harness/arc", "storage still shared".into()),
    };
    if let Err(e) = s.close().await {
        return fail("close/err", format!("{:#}", e));
    }
    let mut on_disk: BTreeMap<(Vec<u8>, u64, bool), u32> = BTreeMap::new();
    let mut nrec = 0u64;
    for (id, is_idx, p) in sut::list_files(dir) {
        if is_idx {
            continue;
        }
        let pb = blobfmt::parse_blob_file(&p, keylen).map_err(|e| Failure { clause: "harness/read".into(), detail: e.to_string(), step: 0, op: String::new() })?;
        if pb.end != blobfmt::ParseEnd::Clean {
            return fail("conc/blob-records-overlap-or-gap", format!("blob {}: {:?}", id, pb.end));
        }
        for r in &pb.records {
            nrec += 1;
            if r.hdr.blob_offset != r.pos {
                return fail("conc/blob-offset-mismatch", format!("blob {}: record at {} carries blob_offset {}", id, r.pos, r.hdr.blob_offset));
            }
            if !r.data_crc_ok {
                return fail("conc/torn-record", format!("blob {}: data checksum of the record at {} fails", id, r.pos));
            }
            *on_disk.entry((r.hdr.key.clone(), r.hdr.timestamp, r.deleted())).or_default() += 1;
        }
    }
    for e in &log {
        if let Ev::Write { key, ts, del, ok: true, .. } = e {
            let n = on_disk.get(&(key_bytes(keylen, *key), *ts, *del)).copied().unwrap_or(0);
            if n == 0 && !*del {
                return fail("conc/acknowledged-write-not-on-disk", format!("key {} ts {}", key, ts));
            }
            if n > 1 && !*del {
                return fail("conc/duplicate-record", format!("key {} ts {} stored {} times", key, ts, n));
            }
        }
    }
    let known_ops: BTreeSet<(Vec<u8>, u64, bool)> = log.iter().filter_map(|e| if let Ev::Write { key, ts, del, .. } = e { Some((key_bytes(keylen, *key), *ts, *del)) } else { None }).collect();
    for k in on_disk.keys() {
        let seed_rec = k.0 == key_bytes(keylen, 250) || k.0 == key_bytes(keylen, 251);
        if !known_ops.contains(k) && !seed_rec {
            return fail("conc/invented-record-on-disk", format!("a record (ts {}, deleted {}) that no client wrote", k.1, k.2));
        }
    }
    if overlap > 0 {
        labels.insert("read_overlapped_write".to_string());
    }
    if blobs_end > blobs_at_start {
        labels.insert("rotation".to_string());
    }
    if c.reopen_first {
        labels.insert("reopened_active_blob".to_string());
    }
    labels.insert(format!("clients_{}", c.nclients));
    let _ = switches;
    let mut stats = Stats::default();
    stats.queries = nreads;
    stats.writes = total_writes as u64;
    stats.steps = log.len() as u64;
    let nontrivial = overlap > 0 && blobs_end > blobs_at_start;
    let _ = nrec;
    Ok(CaseOut { nontrivial, labels, stats, known_hits: Default::default(), weight: 1 })
}

/// Lifecycle storm: in every round the active blob is closed, then `tasks` clients released by a barrier call
/// try_restore_active_blob / try_create_active_blob (an error is fine: somebody else was first) and write a fresh key each.
#[derive(Clone, Debug, Serialize, Deserialize)]
pub struct StormCase {
    pub cfg: Cfg,
    pub rounds: u16,
    pub tasks: u8,
    /// 0: everybody restores, 1: everybody creates, 2: half/half, 3: nobody calls a lifecycle function (writes create the blob),
    /// 4: no lifecycle storm; instead one fresh key is written and every client deletes it with only_if_presented = true,
    /// 5: one task cycles try_restore / try_close_active_blob over a fixed set of blobs while the clients poll blobs_count,
    ///    records_count and check_filters, all of which are invariant under that cycle,
    /// 6: every client writes 40 + rounds fresh keys in a row while one task switches the active blob continuously
    pub kind: u8,
    pub preload_blobs: u8,
}

pub fn storm_strategy() -> BoxedStrategy<StormCase> {
    let cfg = (prop::sample::select(&[8usize, 33][..]), prop_oneof![Just(2usize), Just(8usize), Just(8usize)], prop::bool::weighted(0.3), any::<bool>()).prop_map(|(keylen, rt_workers, bloom, allow_dup)| Cfg { keylen, rt_workers, bloom: if bloom { Bloom::Tiny } else { Bloom::None }, allow_dup, defer_ms: (2, 5), ..Cfg::default() });
    (cfg, 40u16..140, prop_oneof![Just(4u8), Just(8), Just(16), Just(32)], 0u8..7, 1u8..5).prop_map(|(cfg, rounds, tasks, kind, preload_blobs)| StormCase { cfg, rounds, tasks, kind, preload_blobs }).boxed()
}

/// Awaits client tasks while watching for a dead-lock: no task finishes AND every counter of the storage's background
/// machinery (messages sent / received / processed, maintenance tasks running, senders and lock waiters) stands still at every
/// 50 ms sample for 20 s, although calls are outstanding. Operations here take micro- to milliseconds; the window is four orders of magnitude above that, and any
/// background activity re-starts it. A mere overrun of 240 s without that witness ends the run as inconclusive.
async fn join_watch<T>(hs: Vec<tokio::task::JoinHandle<T>>, s: &dyn Sut, what: &str) -> Result<Vec<std::result::Result<T, tokio::task::JoinError>>, Failure> {
    let started = std::time::Instant::now();
    let mut since = started;
    let mut last_fin = usize::MAX;
    let mut last_st = s.bg();
    loop {
        let fin = hs.iter().filter(|h| h.is_finished()).count();
        if fin == hs.len() {
            break;
        }
        let st = s.bg();
        // any movement - a call finishing, a message sent / received / processed, a maintenance task starting or ending,
        // somebody entering or leaving a wait - re-starts the window (a worker stuck in the same dead-lock moves nothing either)
        if fin != last_fin || st != last_st {
            last_fin = fin;
            last_st = st.clone();
            since = std::time::Instant::now();
        }
        if since.elapsed() > Duration::from_secs(20) {
            return Err(Failure { clause: "conc/deadlock-no-activity".into(), detail: format!("{}: {} of {} client calls outstanding, none finished for 20 s and no counter of the background machinery moved at any sample ({:?})", what, hs.len() - fin, hs.len(), st), step: 0, op: String::new() });
        }
        if started.elapsed() > Duration::from_secs(240) {
            println!("INCONCLUSIVE property=C08 clients did not finish within 240 s (no deadlock witness)");
            std::process::exit(2);
        }
        tokio::time::sleep(Duration::from_millis(50)).await;
    }
    let mut out = Vec::with_capacity(hs.len());
    for h in hs {
        out.push(h.await);
    }
    Ok(out)
}

fn storm_key(keylen: usize, n: u32) -> Vec<u8> {
    let mut v = vec![(n % 251) as u8; keylen];
    v[..4].copy_from_slice(&n.to_be_bytes());
    v
}

pub fn run_storm(c: &StormCase, dir: &Path, _findings: &Findings) -> Result<CaseOut, Failure> {
    let rt = c.cfg.runtime();
    let _ = std::fs::remove_dir_all(dir);
    let out = rt.block_on(async {
        let keylen = c.cfg.keylen;
        let s = match sut::open(&c.cfg, dir, false).await {
            Ok(s) => s,
            Err(e) => return fail("init/err", format!("{:#}", e)),
        };
        let s: Arc<Box<dyn Sut>> = Arc::new(s);
        let mut next_key = 0u32;
        let mut acked: Vec<u32> = vec![];
        for _ in 0..c.preload_blobs {
            for _ in 0..5 {
                if let Err(e) = s.write(&storm_key(keylen, next_key), Bytes::from(value_for(next_key as u64, 0, 24)), 1, None).await {
                    return fail("write/err", format!("{:#}", e));
                }
                acked.push(next_key);
                next_key += 1;
            }
            let _ = s.try_close_active().await;
        }
        let mut labels = BTreeSet::new();
        let mut stats = Stats::default();
        let mut restore_ok_total = 0u64;
        let mut prev_round: Vec<u32> = vec![];
        let mut extra_records = 0usize;
        if c.kind == 5 {
            // all blobs closed now; restore / close only moves the last blob between the closed list and the active slot
            if s.has_active().await {
                let _ = s.try_close_active().await;
            }
            let nblobs = s.blobs_count().await;
            let nrec = s.records_count().await;
            let stop = Arc::new(AtomicBool::new(false));
            let mut hs = vec![];
            for t in 0..c.tasks {
                let s = s.clone();
                let stop = stop.clone();
                let keys = acked.clone();
                hs.push(tokio::spawn(async move {
                    let mut i = t as usize;
                    let mut polls = 0u64;
                    while !stop.load(SeqCst) {
                        polls += 1;
                        let b = s.blobs_count().await;
                        if b != nblobs {
                            return Err(format!("conc/storm/blobs-count-torn: blobs_count() = {} while the storage consists of {} blobs throughout (restore / close only move one of them)", b, nblobs));
                        }
                        let r = s.records_count().await;
                        if r != nrec {
                            return Err(format!("conc/storm/records-count-torn: records_count() = {} while {} records are stored throughout", r, nrec));
                        }
                        // what a metrics poller of an application reads (values are not judged: they must come back)
                        let _ = s.index_memory().await;
                        let _ = s.disk_used().await;
                        if !keys.is_empty() {
                            i = (i + 7) % keys.len();
                            let kb = storm_key(keylen, keys[i]);
                            if s.check_filters(&kb).await == Some(false) {
                                return Err(format!("conc/storm/check_filters-false-negative: key {} is stored, check_filters says Some(false) during a restore / close cycle", keys[i]));
                            }
                            if !s.check_filter(&kb).await {
                                return Err(format!("conc/storm/check_filter-false-negative: key {} is stored, BloomProvider::check_filter says NotContains during a restore / close cycle", keys[i]));
                            }
                        }
                        tokio::task::yield_now().await;
                    }
                    Ok(polls)
                }));
            }
            // (the cycle runs as a task of its own and is watched like the clients: if it got stuck the harness would too)
            let cycles = c.rounds as usize * 4;
            let cycler = {
                let s = s.clone();
                tokio::spawn(async move {
                    for _ in 0..cycles {
                        let _ = s.try_restore_active().await;
                        let _ = s.try_close_active().await;
                    }
                })
            };
            let cyc = join_watch(vec![cycler], &**s, "restore / close cycle under invariant polls").await;
            stop.store(true, SeqCst);
            cyc?;
            stats.steps += cycles as u64;
            for h in join_watch(hs, &**s, "lifecycle storm").await? {
                match h {
                    Ok(Ok(p)) => stats.queries += 3 * p,
                    Ok(Err(e)) => {
                        let (clause, detail) = e.split_once(": ").unwrap_or(("conc/storm/poll", e.as_str()));
                        return fail(clause, detail.to_string());
                    }
                    Err(e) => return fail("panic", format!("client task: {}", e)),
                }
            }
            labels.insert("invariant_poll_storm".to_string());
        }
        if c.kind == 6 {
            // continuous writers of fresh keys (each write of the duplicate-refusing mode looks the key up first) while one
            // task switches the active blob all the time: every call finishes, every acknowledged key is there afterwards
            let per_task = 40 + c.rounds as u32;
            let base = next_key;
            let stop = Arc::new(AtomicBool::new(false));
            let mut hs = vec![];
            for t in 0..c.tasks as u32 {
                let s = s.clone();
                hs.push(tokio::spawn(async move {
                    let mut mine = vec![];
                    for i in 0..per_task {
                        let k = base + t * per_task + i;
                        // a write that finds the active blob closed under it reports ActiveBlobNotSet (nothing is stored,
                        // nothing acknowledged): the client simply tries again
                        let mut tries = 0u32;
                        loop {
                            match s.write(&storm_key(keylen, k), Bytes::from(value_for(k as u64, t as u16, 24)), 1, None).await {
                                Ok(()) => {
                                    mine.push(k);
                                    break;
                                }
                                Err(e) if format!("{:#}", e).contains("ActiveBlobNotSet") && tries < 10_000 => {
                                    tries += 1;
                                    tokio::task::yield_now().await;
                                }
                                Err(e) => return Err(format!("write of key {} failed: {:#}", k, e)),
                            }
                        }
                        if i % 8 == 7 {
                            tokio::task::yield_now().await;
                        }
                    }
                    Ok(mine)
                }));
            }
            let cycler = {
                let s = s.clone();
                let stop = stop.clone();
                tokio::spawn(async move {
                    let mut n = 0u64;
                    // (throttled and bounded: an unthrottled switcher starves the writers and litters the directory with blobs)
                    while !stop.load(SeqCst) && n < 400 {
                        let _ = s.try_close_active().await;
                        let _ = s.try_create_active().await;
                        n += 1;
                        tokio::time::sleep(Duration::from_micros(300)).await;
                    }
                    n
                })
            };
            let res = join_watch(hs, &**s, "writers during continuous blob switches").await;
            stop.store(true, SeqCst);
            let res = res?;
            for r in res {
                match r {
                    Ok(Ok(mine)) => {
                        stats.writes += mine.len() as u64;
                        acked.extend(mine);
                    }
                    Ok(Err(e)) => return fail("conc/storm/write-err", e),
                    Err(e) => return fail("panic", format!("client task: {}", e)),
                }
            }
            for r in join_watch(vec![cycler], &**s, "blob switch task").await? {
                if let Ok(n) = r {
                    stats.steps += n;
                }
            }
            next_key = base + c.tasks as u32 * per_task;
            let _ = next_key;
            if !s.has_active().await {
                let _ = s.try_create_active().await;
            }
            labels.insert("writers_during_switch_storm".to_string());
        }
        for round in 0..(if c.kind >= 5 { 0 } else { c.rounds }) {
            stats.steps += 1;
            if c.kind == 4 {
                // conditional-delete storm: one live record in the active blob, every client deletes it "only if presented":
                // exactly one of them finds it live
                let key_no = next_key;
                next_key += 1;
                if let Err(e) = s.write(&storm_key(keylen, key_no), Bytes::from(value_for(key_no as u64, 0, 24)), 1, None).await {
                    return fail("conc/storm/write-err", format!("round {}: {:#}", round, e));
                }
                let barrier = Arc::new(tokio::sync::Barrier::new(c.tasks as usize));
                let mut hs = vec![];
                for _ in 0..c.tasks {
                    let s = s.clone();
                    let barrier = barrier.clone();
                    hs.push(tokio::spawn(async move {
                        barrier.wait().await;
                        s.delete(&storm_key(keylen, key_no), 2, None, true).await.map_err(|e| format!("{:#}", e))
                    }));
                }
                let mut marked = 0u64;
                for h in join_watch(hs, &**s, "lifecycle storm").await? {
                    match h {
                        Ok(Ok(n)) => marked += n,
                        Ok(Err(e)) => return fail("conc/storm/delete-err", format!("round {}: {}", round, e)),
                        Err(e) => return fail("panic", format!("client task: {}", e)),
                    }
                }
                stats.deletes += c.tasks as u64;
                if marked != 1 {
                    return fail("conc/storm/conditional-delete-not-atomic", format!("round {}: {} concurrent delete(only_if_presented) calls on one live record in the active blob reported {} marked blobs in total (exactly one of them can have found it live)", round, c.tasks, marked));
                }
                match s.read(&storm_key(keylen, key_no)).await {
                    Ok(RR::Deleted(2)) => {}
                    Ok(other) => return fail("conc/storm/conditional-delete-lost", format!("round {}: read returns {}", round, other.class())),
                    Err(e) => return fail("conc/storm/read-err", format!("round {}: {:#}", round, e)),
                }
                extra_records += 2;
                labels.insert("conditional_delete_storm".to_string());
                continue;
            }
            // no active blob at the start of the storm
            if s.has_active().await {
                if let Err(e) = s.try_close_active().await {
                    return fail("close_active/err", format!("round {}: {:#}", round, e));
                }
            }
            let barrier = Arc::new(tokio::sync::Barrier::new(c.tasks as usize));
            let mut hs = vec![];
            let mut this_round = vec![];
            for t in 0..c.tasks {
                let key_no = next_key;
                next_key += 1;
                this_round.push(key_no);
                let s = s.clone();
                let barrier = barrier.clone();
                let kind = c.kind;
                hs.push(tokio::spawn(async move {
                    barrier.wait().await;
                    let mut restored = false;
                    match (kind, t % 2) {
                        (0, _) | (2, 0) => restored = s.try_restore_active().await.is_ok(),
                        (1, _) | (2, _) => {
                            let _ = s.try_create_active().await;
                        }
                        _ => {}
                    }
                    let r = s.write(&storm_key(keylen, key_no), Bytes::from(value_for(key_no as u64, t as u16, 24)), 1, None).await;
                    (key_no, r.map_err(|e| format!("{:#}", e)), restored)
                }));
            }
            let mut restored_this_round = 0;
            for h in join_watch(hs, &**s, "lifecycle storm").await? {
                match h {
                    Ok((k, Ok(()), restored)) => {
                        acked.push(k);
                        stats.writes += 1;
                        if restored {
                            restored_this_round += 1;
                        }
                    }
                    Ok((k, Err(e), _)) => return fail("conc/storm/write-err", format!("round {}: write of key {} failed: {}", round, k, e)),
                    Err(e) => return fail("panic", format!("client task: {}", e)),
                }
            }
            restore_ok_total += restored_this_round;
            if restored_this_round > 1 {
                // two restores cannot both succeed on one closed blob unless two different blobs were taken: judged by the reads below
                labels.insert("several_restores_succeeded_in_one_round".to_string());
            }
            // every write acknowledged in this and the previous round is readable now
            for k in this_round.iter().chain(prev_round.iter()) {
                stats.queries += 1;
                match s.read(&storm_key(keylen, *k)).await {
                    Ok(RR::Found(d)) if ts_of(&d) == Some(*k as u64) => {}
                    Ok(other) => return fail("conc/storm/acknowledged-write-lost", format!("round {} ({} tasks, kind {}): key {} was acknowledged, read returns {}", round, c.tasks, c.kind, k, other.class())),
                    Err(e) => return fail("conc/storm/read-err", format!("round {}: key {}: {:#}", round, k, e)),
                }
            }
            prev_round = this_round;
        }
        if restore_ok_total > 0 {
            labels.insert("restore_won".to_string());
        }
        let _ = sut::wait_quiet(s.as_ref().as_ref(), true, crate::interp::max_wait()).await;
        // quiescence: everything acknowledged is there, nothing else
        for k in &acked {
            stats.queries += 1;
            match s.read(&storm_key(keylen, *k)).await {
                Ok(RR::Found(d)) if ts_of(&d) == Some(*k as u64) => {}
                Ok(other) => return fail("conc/storm/acknowledged-write-lost", format!("at quiescence: key {} was acknowledged, read returns {}", k, other.class())),
                Err(e) => return fail("conc/storm/read-err", format!("key {}: {:#}", k, e)),
            }
        }
        let rc = s.records_count().await;
        if rc != acked.len() + extra_records {
            return fail("conc/storm/records-count", format!("records_count {} but {} records were acknowledged (one per write, one per effective delete)", rc, acked.len() + extra_records));
        }
        // every blob file on disk is a blob of the storage: racing creators must not leave orphan files (and consumed ids) behind
        let files = sut::list_files(dir).into_iter().filter(|x| !x.1).count();
        let blobs = s.blobs_count().await;
        if files != blobs {
            return fail("conc/storm/orphan-blob-files", format!("{} blob files on disk, blobs_count = {}", files, blobs));
        }
        let s = match Arc::try_unwrap(s) {
            Ok(s) => s,
            Err(_) => return fail("harness/arc", "storage still shared".into()),
        };
        if let Err(e) = s.close().await {
            return fail("close/err", format!("{:#}", e));
        }
        // restart: still everything
        let s = match sut::open(&c.cfg, dir, false).await {
            Ok(s) => s,
            Err(e) => return fail("init/err", format!("after the storm: {:#}", e)),
        };
        if s.corrupted_blobs_count() != 0 {
            return fail("conc/storm/quarantined", format!("corrupted_blobs_count = {}", s.corrupted_blobs_count()));
        }
        let rc = s.records_count().await;
        if rc != acked.len() + extra_records {
            return fail("conc/storm/records-count", format!("after restart: records_count {} but {} records were acknowledged", rc, acked.len() + extra_records));
        }
        let _ = s.close().await;
        labels.insert(format!("storm_kind_{}", c.kind));
        Ok(CaseOut { nontrivial: c.tasks >= 4 && c.rounds >= 10, labels, stats, known_hits: Default::default(), weight: 1 })
    });
    rt.shutdown_background();
    out
}

fn sample_storm(c: &StormCase) -> Value {
    json!({"cfg": format!("keylen={} rt_workers={} bloom={:?}", c.cfg.keylen, c.cfg.rt_workers, c.cfg.bloom), "rounds": c.rounds, "tasks_per_round": c.tasks, "kind(0 restore,1 create,2 mixed,3 writes only)": c.kind, "preloaded_closed_blobs": c.preload_blobs})
}

fn sample(c: &ConcCase) -> Value {
    json!({"cfg": format!("keylen={} rt_workers={} max_data_in_blob={} dirty_limit={:?}", c.cfg.keylen, c.cfg.rt_workers, c.cfg.max_data_in_blob, c.cfg.dirty_limit), "clients": c.nclients, "keys": c.nkeys, "steps_per_client": c.steps, "script_seed": c.seed, "reopened_active_blob": c.reopen_first, "maintenance_level": c.maintenance, "perturb_us": c.perturb_us, "burst": c.burst})
}

fn burst_cases(thorough: bool) -> Vec<ConcCase> {
    let mut v = vec![];
    let sizes: Vec<u16> = if thorough { vec![500, 2000, 5000, 8000, 12000] } else { vec![500, 2000] };
    for n in sizes {
        for rt_workers in [2usize, 8] {
            v.push(ConcCase { cfg: Cfg { keylen: 8, rt_workers, max_data_in_blob: 10, allow_dup: true, defer_ms: (2, 5), ..Cfg::default() }, seed: n as u64, nclients: n, nkeys: 4, steps: 1, reopen_first: false, maintenance: 0, perturb_us: 0, burst: true });
        }
    }
    v
}

pub fn run(ctx: &RunCtx) -> PropResult {
    let mut report = Report::default();
    let findings = ctx.findings.clone();
    let runf = |c: &ConcCase, d: &Path| run_conc(c, d, &findings);
    run_replays::<ConcCase, _>(ctx, "conc", &ctx.verif_dir.join("replays").join("C08"), runf, &mut report);
    let runf = |c: &ConcCase, d: &Path| run_conc(c, d, &findings);
    run_generated(ctx, "conc", ctx.tier.pick(64, 2000), conc_strategy, runf, &sample, &mut report);
    // bursts are run one at a time (thousands of tasks each)
    let burst_ctx_jobs = 2usize;
    let _ = burst_ctx_jobs;
    let runf = |c: &ConcCase, d: &Path| run_conc(c, d, &findings);
    run_enumerated(ctx, "conc-burst", burst_cases(ctx.tier == Tier::Thorough), runf, &sample, &mut report);
    let runf = |c: &StormCase, d: &Path| run_storm(c, d, &findings);
    run_replays::<StormCase, _>(ctx, "conc-storm", &ctx.verif_dir.join("replays").join("C08"), runf, &mut report);
    let runf = |c: &StormCase, d: &Path| run_storm(c, d, &findings);
    run_generated(ctx, "conc-storm", ctx.tier.pick(96, 1600), storm_strategy, runf, &sample_storm, &mut report);
    PropResult {
        report,
        level: "exploration",
        rule: "N real client tasks (2/4/8/32/200; bursts of 500-12000 single writes on a full, aged blob) run seeded scripts of write (16 B - 90 KB) / delete / read / contains / read_all on 3-8 keys while a maintenance task forces switches, syncs, frees resources and (level 2) manually closes+creates / restores the active blob; max_data_in_blob 20-80 so that automatic rotation, index dumps and background syncs run underneath; fresh or reopened active blob; current-thread, 2- and 8-worker runtimes; optional sleep perturbation. Timestamps come from one atomic logical clock taken before each call and every value encodes its timestamp, so each key is a max-register. Oracle: for every completed read/contains/read_all of key k: the returned record was written to k by an operation invoked before the read responded (nothing invented, bytes match), its timestamp is >= the largest timestamp acknowledged before the read was invoked (not stale), NotFound only if none, reads ordered in real time are monotone - exactly linearizability of a max-register, no search needed. At quiescence (H3 probe) read_all_with_deletion_marker of every key equals the sequential model of the acknowledged operations; after close every blob file is parsed by the harness: records tile the file, blob_offset equals position, checksums hold, every acknowledged put is stored exactly once, nothing is stored that no client wrote. Deadlock is reported only on a structural witness sampled from the probe (senders blocked on the full queue while holding the read lock, worker waiting for the write lock, zero progress over 5 samples), never on a timeout. A second generated phase (conc-storm) has 40-140 rounds per case: the active blob is closed, then 4-32 clients released by a barrier all call try_restore_active_blob, or try_create_active_blob, or a mix, or nothing, and write one fresh key each (or, sixth kind: one task cycles try_restore / try_close_active_blob over a fixed set of blobs while the clients poll blobs_count, records_count, check_filters and check_filter, all invariant under that cycle; or, fifth kind: one fresh record is written and all clients call delete(only_if_presented = true) on it - the marked-blob counts must sum to exactly 1); after every round the writes acknowledged in this and the previous round must be readable, at quiescence and after a restart every acknowledged key is served and records_count equals the number of acknowledged writes (a blob dropped by two racing lifecycle calls shows as lost writes) and the number of blob files on disk equals blobs_count (racing creators leave no orphan files). In the conc phase clients also call records_count() (never below the number of puts acknowledged before the call) and check_filters / check_filter (a key with an acknowledged put is never denied). Non-trivial = >=1 read overlapped a write of the same key and >=1 blob rotation happened (conc); >= 4 clients and >= 10 rounds (conc-storm). distinct = FNV hash of the serialized case.".into(),
        assumptions: {
            let mut a = common_assumptions();
            a.push("interleavings are those the OS and the tokio scheduler produce in these runs: sampled, not enumerated".into());
            a.push("a call that returns Err is unacknowledged: it constrains nothing; with maintenance level 2 a write racing a manual close may return ActiveBlobNotSet (documented), with levels 0-1 any client error is a violation".into());
            a
        },
    }
}

pub fn replay_other(phase: &str, case: &Value, dir: &Path, findings: &Findings) -> Option<Result<CaseOut, Failure>> {
    if phase == "conc-storm" {
        let runf = |c: &StormCase, d: &Path| run_storm(c, d, findings);
        return serde_json::from_value::<StormCase>(case.clone()).ok().map(|c| guarded(&c, dir, &runf));
    }
    if phase.starts_with("conc") {
        let runf = |c: &ConcCase, d: &Path| run_conc(c, d, findings);
        serde_json::from_value::<ConcCase>(case.clone()).ok().map(|c| guarded(&c, dir, &runf))
    } else {
        None
    }
}
