//! Parallel proptest driver, evidence accumulation, replay files, VIOLATION / KNOWN-FINDING lines.

use crate::findings::Findings;
use crate::interp::{Failure, Stats};
use proptest::strategy::{BoxedStrategy, ValueTree};
use proptest::test_runner::{Config, RngAlgorithm, TestCaseError, TestError, TestRng, TestRunner};
use serde::de::DeserializeOwned;
use serde::Serialize;
use serde_json::{json, Value};
use std::collections::{BTreeMap, BTreeSet, HashSet};
use std::path::{Path, PathBuf};
use std::sync::atomic::{AtomicBool, AtomicU64, Ordering};
use std::sync::Mutex;
use std::time::Instant;

#[derive(Clone, Copy, Debug, PartialEq, Eq)]
pub enum Tier {
    Quick,
    Thorough,
}

impl Tier {
    pub fn name(&self) -> &'static str {
        match self {
            Tier::Quick => "quick",
            Tier::Thorough => "thorough",
        }
    }
    /// quick -> a, thorough -> b
    pub fn pick<T>(&self, a: T, b: T) -> T {
        match self {
            Tier::Quick => a,
            Tier::Thorough => b,
        }
    }
}

pub struct RunCtx {
    pub prop: String,
    pub tier: Tier,
    pub seed: u64,
    pub jobs: usize,
    pub verif_dir: PathBuf,
    pub findings: Findings,
    pub scratch: PathBuf,
    /// progress counter for the watchdog
    pub progress: AtomicU64,
    pub stop: AtomicBool,
}

#[derive(Clone, Debug, Default)]
pub struct CaseOut {
    pub nontrivial: bool,
    pub labels: BTreeSet<String>,
    pub stats: Stats,
    pub known_hits: BTreeSet<String>,
    /// number of sub-evaluations this case stands for (default 1)
    pub weight: u64,
}

#[derive(Debug, Default)]
pub struct Report {
    pub evaluations: u64,
    pub nontrivial: HashSet<u64>,
    pub labels: BTreeMap<String, u64>,
    pub stats: Stats,
    pub samples: Vec<Value>,
    pub known: BTreeMap<String, u64>,
    pub violations: Vec<(String, PathBuf)>,
    pub phases: Vec<Value>,
    pub extra: BTreeMap<String, Value>,
    pub exhaustive: bool,
}

impl Report {
    pub fn add_stats(&mut self, s: &Stats) {
        self.stats.steps += s.steps;
        self.stats.queries += s.queries;
        self.stats.writes += s.writes;
        self.stats.deletes += s.deletes;
        self.stats.reopens += s.reopens;
    }
}

fn mix(seed: u64, prop: &str, phase: &str, worker: u64) -> [u8; 32] {
    let mut h: u64 = 0xcbf2_9ce4_8422_2325 ^ seed.wrapping_mul(0x9E37_79B9_7F4A_7C15);
    for b in prop.bytes().chain(phase.bytes()) {
        h ^= b as u64;
        h = h.wrapping_mul(0x0000_0100_0000_01b3);
    }
    h ^= worker.wrapping_mul(0xD6E8_FEB8_6659_FD93);
    let mut out = [0u8; 32];
    let mut x = h | 1;
    for chunk in out.chunks_mut(8) {
        x ^= x << 13;
        x ^= x >> 7;
        x ^= x << 17;
        chunk.copy_from_slice(&x.to_le_bytes());
    }
    out
}

pub fn fnv(bytes: &[u8]) -> u64 {
    let mut h: u64 = 0xcbf2_9ce4_8422_2325;
    for b in bytes {
        h ^= *b as u64;
        h = h.wrapping_mul(0x0000_0100_0000_01b3);
    }
    h
}

static PANIC_MSGS: Mutex<Vec<String>> = Mutex::new(Vec::new());

/// Installs a panic hook that records messages instead of printing backtraces
pub fn install_quiet_panic_hook() {
    std::panic::set_hook(Box::new(|info| {
        let msg = info.to_string();
        if let Ok(mut g) = PANIC_MSGS.lock() {
            if g.len() < 200 {
                g.push(msg);
            }
        }
    }));
}

pub fn take_panic_msgs() -> Vec<String> {
    PANIC_MSGS.lock().map(|mut g| std::mem::take(&mut *g)).unwrap_or_default()
}

/// Runs `runf` under catch_unwind; a panic becomes a Failure with clause "panic"
pub fn guarded<T>(case: &T, dir: &Path, runf: &(dyn Fn(&T, &Path) -> Result<CaseOut, Failure> + Sync)) -> Result<CaseOut, Failure> {
    let r = std::panic::catch_unwind(std::panic::AssertUnwindSafe(|| runf(case, dir)));
    if std::env::var("VERIF_KEEP").is_err() {
        let _ = std::fs::remove_dir_all(dir);
    }
    match r {
        Ok(r) => r,
        Err(p) => {
            let msg = if let Some(s) = p.downcast_ref::<&str>() {
                s.to_string()
            } else if let Some(s) = p.downcast_ref::<String>() {
                s.clone()
            } else {
                "panic".to_string()
            };
            // the hook recorded "panicked at <file>:<line>:<col>": keep the location of the last one next to the payload
            let at = take_panic_msgs().last().and_then(|m| m.lines().next().map(|l| l.to_string())).unwrap_or_default();
            Err(Failure { clause: "panic".into(), detail: if at.is_empty() { msg } else { format!("{} [{}]", msg, at) }, step: 0, op: String::new() })
        }
    }
}

pub fn replay_dir(ctx: &RunCtx) -> PathBuf {
    ctx.verif_dir.join("replays").join("found")
}

thread_local! {
    static REPLAY_OVERRIDE: std::cell::RefCell<Option<PathBuf>> = std::cell::RefCell::new(None);
}

/// A check whose generated case is not a deterministic replay (the failing state depends on scheduling)
/// saves the concrete failing state itself and registers that file as the replay of the failure it is about to return
pub fn set_replay_override(p: PathBuf) {
    REPLAY_OVERRIDE.with(|r| *r.borrow_mut() = Some(p));
}

pub fn take_replay_override() -> Option<PathBuf> {
    REPLAY_OVERRIDE.with(|r| r.borrow_mut().take())
}

/// Writes an arbitrary replay body (used with `set_replay_override`)
pub fn write_replay_value(ctx_verif_dir: &Path, prop: &str, phase: &str, case: &Value, f: &Failure) -> PathBuf {
    let dir = ctx_verif_dir.join("replays").join("found");
    let _ = std::fs::create_dir_all(&dir);
    let body = json!({"property": prop, "phase": phase, "failure": { "clause": f.clause, "detail": f.detail, "step": f.step, "op": f.op }, "case": case});
    let path = dir.join(format!("{}-{}-{:016x}.json", prop, phase, fnv(&serde_json::to_vec(case).unwrap_or_default())));
    let _ = std::fs::write(&path, serde_json::to_vec_pretty(&body).unwrap_or_default());
    path
}

pub fn write_replay<T: Serialize>(ctx: &RunCtx, phase: &str, case: &T, f: &Failure) -> PathBuf {
    if let Some(p) = take_replay_override() {
        return p;
    }
    let dir = replay_dir(ctx);
    let _ = std::fs::create_dir_all(&dir);
    let body = json!({
        "property": ctx.prop,
        "phase": phase,
        "seed": ctx.seed,
        "failure": { "clause": f.clause, "detail": f.detail, "step": f.step, "op": f.op },
        "case": case,
    });
    let bytes = serde_json::to_vec_pretty(&body).unwrap_or_default();
    let path = dir.join(format!("{}-{}-{:016x}.json", ctx.prop, phase, fnv(&serde_json::to_vec(case).unwrap_or_default())));
    let _ = std::fs::write(&path, bytes);
    path
}

/// Generated search: `cases` cases over `ctx.jobs` workers. Stops all workers at the first failure,
/// shrinks it, writes the replay file and records the violation.
pub fn run_generated<T, S, F>(ctx: &RunCtx, phase: &str, cases: u64, mk_strategy: S, runf: F, sample_of: &(dyn Fn(&T) -> Value + Sync), report: &mut Report)
where
    T: Clone + std::fmt::Debug + Serialize + Send,
    S: Fn() -> BoxedStrategy<T> + Sync,
    F: Fn(&T, &Path) -> Result<CaseOut, Failure> + Sync,
{
    let started = Instant::now();
    let jobs = ctx.jobs.max(1) as u64;
    let per = (cases + jobs - 1) / jobs;
    let merged: Mutex<&mut Report> = Mutex::new(report);
    let phase_evals = AtomicU64::new(0);
    let phase_nt = AtomicU64::new(0);
    std::thread::scope(|scope| {
        for w in 0..jobs {
            let merged = &merged;
            let mk_strategy = &mk_strategy;
            let runf = &runf;
            let phase_evals = &phase_evals;
            let phase_nt = &phase_nt;
            scope.spawn(move || {
                let cfg = Config { cases: per as u32, failure_persistence: None, max_shrink_iters: 1200, max_shrink_time: 150_000, max_local_rejects: 1, max_global_rejects: 1, ..Config::default() };
                let rng = TestRng::from_seed(RngAlgorithm::ChaCha, &mix(ctx.seed, &ctx.prop, phase, w));
                let mut runner = TestRunner::new_with_rng(cfg, rng);
                let strategy = mk_strategy();
                let failed = AtomicBool::new(false);
                let counter = AtomicU64::new(0);
                let last_failure: Mutex<Option<Failure>> = Mutex::new(None);
                let dir_base = ctx.scratch.join(format!("{}-w{}", phase, w));
                let result = runner.run(&strategy, |case| {
                    if ctx.stop.load(Ordering::SeqCst) && !failed.load(Ordering::SeqCst) {
                        return Ok(()); // another worker found a failure: drain quickly
                    }
                    let n = counter.fetch_add(1, Ordering::SeqCst);
                    let dir = dir_base.join(format!("c{}", n));
                    let shrinking = failed.load(Ordering::SeqCst);
                    let t0 = Instant::now();
                    let out = guarded(&case, &dir, runf);
                    if t0.elapsed().as_secs() >= 5 && std::env::var("VERIF_DEBUG").is_ok() {
                        eprintln!("[debug] slow case ({} s, ok={}): {}", t0.elapsed().as_secs(), out.is_ok(), serde_json::to_string(&case).unwrap_or_default());
                    }
                    ctx.progress.fetch_add(1, Ordering::SeqCst);
                    match out {
                        Ok(o) => {
                            if !shrinking {
                                let mut g = merged.lock().unwrap();
                                let wgt = o.weight.max(1);
                                g.evaluations += wgt;
                                phase_evals.fetch_add(wgt, Ordering::SeqCst);
                                g.add_stats(&o.stats);
                                for l in &o.labels {
                                    *g.labels.entry(l.clone()).or_default() += 1;
                                }
                                for k in &o.known_hits {
                                    *g.known.entry(k.clone()).or_default() += 1;
                                }
                                if o.nontrivial {
                                    let h = fnv(&serde_json::to_vec(&case).unwrap_or_default());
                                    if g.nontrivial.insert(h) {
                                        phase_nt.fetch_add(1, Ordering::SeqCst);
                                        let in_phase = g.samples.iter().filter(|s| s["phase"] == phase).count();
                                        if in_phase < 3 {
                                            let s = json!({"phase": phase, "case": sample_of(&case)});
                                            g.samples.push(s);
                                        }
                                    }
                                }
                            }
                            Ok(())
                        }
                        Err(f) => {
                            if !shrinking {
                                let mut g = merged.lock().unwrap();
                                g.evaluations += 1;
                                phase_evals.fetch_add(1, Ordering::SeqCst);
                            }
                            if !shrinking && std::env::var("VERIF_DEBUG").is_ok() {
                                eprintln!("[debug] first failure: {} -- {} (step {}, op {})\n{}", f.clause, f.detail, f.step, f.op, serde_json::to_string(&case).unwrap_or_default());
                            }
                            failed.store(true, Ordering::SeqCst);
                            ctx.stop.store(true, Ordering::SeqCst);
                            let reason = format!("{}: {}", f.clause, f.detail);
                            *last_failure.lock().unwrap() = Some(f);
                            Err(TestCaseError::fail(reason))
                        }
                    }
                });
                if let Err(TestError::Fail(_, minimal)) = result {
                    // re-run the minimal case once to get its own failure description
                    let dir = dir_base.join("minimal");
                    let f = match guarded(&minimal, &dir, runf) {
                        Err(f) => f,
                        Ok(_) => last_failure.lock().unwrap().clone().unwrap_or(Failure { clause: "flaky".into(), detail: "minimal case passed on re-run".into(), step: 0, op: String::new() }),
                    };
                    let path = write_replay(ctx, phase, &minimal, &f);
                    let mut g = merged.lock().unwrap();
                    eprintln!("[{}:{}] failure: {} -- {} (step {}, op {})", ctx.prop, phase, f.clause, f.detail, f.step, f.op);
                    g.violations.push((f.clause.clone(), path));
                } else if let Err(TestError::Abort(r)) = result {
                    eprintln!("[{}:{}] proptest aborted: {}", ctx.prop, phase, r);
                }
                let _ = std::fs::remove_dir_all(&dir_base);
            });
        }
    });
    let wall = started.elapsed().as_secs_f64();
    let r = merged.into_inner().unwrap();
    r.phases.push(json!({"phase": phase, "requested_cases": cases, "evaluations": phase_evals.load(Ordering::SeqCst), "distinct_nontrivial": phase_nt.load(Ordering::SeqCst), "wall_s": (wall * 100.0).round() / 100.0}));
}

/// Systematic enumeration: runs `runf` over an explicit list of cases (no shrinking; the failing
/// case itself is the replay)
pub fn run_enumerated<T, F>(ctx: &RunCtx, phase: &str, cases: Vec<T>, runf: F, sample_of: &(dyn Fn(&T) -> Value + Sync), report: &mut Report)
where
    T: Clone + std::fmt::Debug + Serialize + Send + Sync,
    F: Fn(&T, &Path) -> Result<CaseOut, Failure> + Sync,
{
    let started = Instant::now();
    let jobs = ctx.jobs.max(1);
    let next = AtomicU64::new(0);
    let total = cases.len() as u64;
    let merged: Mutex<&mut Report> = Mutex::new(report);
    let phase_evals = AtomicU64::new(0);
    let phase_nt = AtomicU64::new(0);
    std::thread::scope(|scope| {
        for w in 0..jobs {
            let merged = &merged;
            let runf = &runf;
            let next = &next;
            let cases = &cases;
            let phase_evals = &phase_evals;
            let phase_nt = &phase_nt;
            scope.spawn(move || {
                let dir_base = ctx.scratch.join(format!("{}-e{}", phase, w));
                loop {
                    if ctx.stop.load(Ordering::SeqCst) {
                        break;
                    }
                    let i = next.fetch_add(1, Ordering::SeqCst);
                    if i >= total {
                        break;
                    }
                    let case = &cases[i as usize];
                    let dir = dir_base.join(format!("c{}", i));
                    let out = guarded(case, &dir, runf);
                    ctx.progress.fetch_add(1, Ordering::SeqCst);
                    let mut g = merged.lock().unwrap();
                    match out {
                        Ok(o) => {
                            let wgt = o.weight.max(1);
                            g.evaluations += wgt;
                            phase_evals.fetch_add(wgt, Ordering::SeqCst);
                            g.add_stats(&o.stats);
                            for l in &o.labels {
                                *g.labels.entry(l.clone()).or_default() += 1;
                            }
                            for k in &o.known_hits {
                                *g.known.entry(k.clone()).or_default() += 1;
                            }
                            if o.nontrivial {
                                let h = fnv(&serde_json::to_vec(case).unwrap_or_default());
                                if g.nontrivial.insert(h) {
                                    phase_nt.fetch_add(1, Ordering::SeqCst);
                                    let in_phase = g.samples.iter().filter(|s| s["phase"] == phase).count();
                                    if in_phase < 3 {
                                        let s = json!({"phase": phase, "case": sample_of(case)});
                                        g.samples.push(s);
                                    }
                                }
                            }
                        }
                        Err(f) => {
                            g.evaluations += 1;
                            phase_evals.fetch_add(1, Ordering::SeqCst);
                            ctx.stop.store(true, Ordering::SeqCst);
                            let path = write_replay(ctx, phase, case, &f);
                            eprintln!("[{}:{}] failure: {} -- {} (step {}, op {})", ctx.prop, phase, f.clause, f.detail, f.step, f.op);
                            g.violations.push((f.clause.clone(), path));
                        }
                    }
                }
                let _ = std::fs::remove_dir_all(&dir_base);
            });
        }
    });
    let wall = started.elapsed().as_secs_f64();
    let r = merged.into_inner().unwrap();
    r.phases.push(json!({"phase": phase, "enumerated_cases": total, "evaluations": phase_evals.load(Ordering::SeqCst), "distinct_nontrivial": phase_nt.load(Ordering::SeqCst), "wall_s": (wall * 100.0).round() / 100.0}));
}

/// Re-runs every replay file of `dir` (regression tier) whose phase matches
pub fn run_replays<T, F>(ctx: &RunCtx, phase: &str, dir: &Path, runf: F, report: &mut Report)
where
    T: Clone + std::fmt::Debug + Serialize + DeserializeOwned + Send,
    F: Fn(&T, &Path) -> Result<CaseOut, Failure> + Sync,
{
    let mut n = 0u64;
    let mut files: Vec<PathBuf> = match std::fs::read_dir(dir) {
        Ok(rd) => rd.flatten().map(|e| e.path()).filter(|p| p.extension().map_or(false, |x| x == "json")).collect(),
        Err(_) => vec![],
    };
    files.sort();
    for path in files {
        let v: Value = match std::fs::read(&path).ok().and_then(|b| serde_json::from_slice(&b).ok()) {
            Some(v) => v,
            None => continue,
        };
        if v["phase"] != phase || v["property"] != ctx.prop.as_str() {
            continue;
        }
        let case: T = match serde_json::from_value(v["case"].clone()) {
            Ok(c) => c,
            Err(e) => {
                eprintln!("[{}] replay {} does not decode: {}", ctx.prop, path.display(), e);
                continue;
            }
        };
        n += 1;
        let d = ctx.scratch.join(format!("replay-{}", n));
        match guarded(&case, &d, &runf) {
            Ok(o) => {
                report.evaluations += 1;
                report.add_stats(&o.stats);
                for k in &o.known_hits {
                    *report.known.entry(k.clone()).or_default() += 1;
                }
            }
            Err(f) => {
                report.evaluations += 1;
                eprintln!("[{}:{}] replay {} fails: {} -- {}", ctx.prop, phase, path.display(), f.clause, f.detail);
                report.violations.push((f.clause.clone(), path.clone()));
            }
        }
    }
    report.phases.push(json!({"phase": format!("{}-replays", phase), "files": n}));
}

pub struct EvidenceMeta<'a> {
    pub level: &'a str,
    pub rule: &'a str,
    pub assumptions: Vec<String>,
}

pub fn write_evidence(ctx: &RunCtx, report: &Report, meta: &EvidenceMeta, wall_s: f64) {
    let mut coverage = serde_json::Map::new();
    coverage.insert("evaluations".into(), json!(report.evaluations));
    coverage.insert("distinct_nontrivial".into(), json!(report.nontrivial.len()));
    coverage.insert("rule".into(), json!(meta.rule));
    coverage.insert("samples".into(), json!(report.samples));
    coverage.insert("labels".into(), json!(report.labels));
    coverage.insert("phases".into(), json!(report.phases));
    coverage.insert("steps".into(), json!(report.stats.steps));
    coverage.insert("queries_compared".into(), json!(report.stats.queries));
    coverage.insert("writes".into(), json!(report.stats.writes));
    coverage.insert("deletes".into(), json!(report.stats.deletes));
    coverage.insert("reopens".into(), json!(report.stats.reopens));
    coverage.insert("continued_past_known".into(), json!(report.known));
    if report.exhaustive {
        coverage.insert("exhaustive".into(), json!(true));
    }
    for (k, v) in &report.extra {
        coverage.insert(k.clone(), v.clone());
    }
    let ev = json!({
        "property_id": ctx.prop,
        "tier": ctx.tier.name(),
        "seed": ctx.seed,
        "level": meta.level,
        "coverage": Value::Object(coverage),
        "assumptions": meta.assumptions,
        "wall_s": (wall_s * 100.0).round() / 100.0,
        "violations": report.violations.len(),
    });
    let dir = ctx.verif_dir.join("evidence");
    let _ = std::fs::create_dir_all(&dir);
    let path = dir.join(format!("{}.json", ctx.prop));
    let _ = std::fs::write(&path, serde_json::to_vec_pretty(&ev).unwrap_or_default());
}

/// Prints the KNOWN-FINDING / VIOLATION lines and returns the process exit code
pub fn conclude(ctx: &RunCtx, report: &Report) -> i32 {
    for (sig, n) in &report.known {
        println!("KNOWN-FINDING: property={} {} ({} cases): {}", ctx.prop, sig, n, ctx.findings.describe(sig));
    }
    let mut seen = BTreeSet::new();
    for (clause, path) in &report.violations {
        if seen.insert(path.clone()) {
            println!("VIOLATION property={} replay={}", ctx.prop, path.display());
            eprintln!("  clause: {}", clause);
        }
    }
    println!(
        "[{}] tier={} seed={} evaluations={} distinct_nontrivial={} violations={}",
        ctx.prop,
        ctx.tier.name(),
        ctx.seed,
        report.evaluations,
        report.nontrivial.len(),
        report.violations.len()
    );
    if report.violations.is_empty() {
        0
    } else {
        1
    }
}
