//! Known findings: genuine defects of the unchanged tree that are recorded rather than repaired.
//! The file is committed under /verif and is never written at run time.

use serde::{Deserialize, Serialize};
use std::path::Path;

#[derive(Clone, Debug, Serialize, Deserialize)]
pub struct Finding {
    pub property: String,
    /// exact oracle-clause signature this finding covers
    pub signature: String,
    /// "open" or "fixed"
    pub status: String,
    #[serde(default)]
    pub commit: String,
    pub what: String,
}

#[derive(Clone, Debug, Default, Serialize, Deserialize)]
pub struct Findings {
    pub findings: Vec<Finding>,
    #[serde(skip)]
    pub property: String,
}

impl Findings {
    pub fn load(path: &Path, property: &str) -> Self {
        let mut f: Findings = match std::fs::read(path) {
            Ok(b) => serde_json::from_slice(&b).unwrap_or_else(|e| panic!("known_findings.json does not parse: {}", e)),
            Err(_) => Findings::default(),
        };
        f.property = property.to_string();
        f
    }

    pub fn is_open(&self, sig: &str) -> bool {
        self.findings.iter().any(|f| f.status == "open" && f.property == self.property && f.signature == sig)
    }

    pub fn describe(&self, sig: &str) -> String {
        self.findings.iter().find(|f| f.property == self.property && f.signature == sig).map(|f| f.what.clone()).unwrap_or_default()
    }
}
