//! Reference model of pearl's observable semantics, written from the property statements:
//! one flat list of records per blob, ranking by (timestamp desc, blob id desc, append index desc).
//! It deliberately does NOT mirror pearl's algorithms (per-blob lookups merged with `latest()`,
//! stable sorts, filters), so that comparing against it is never "implementation against itself".

use crate::sut::{MetaMap, RR};
use std::collections::BTreeMap;

#[derive(Clone, Debug, PartialEq)]
pub enum Kind {
    Put { val: Vec<u8>, meta: MetaMap },
    Del { meta: MetaMap },
}

#[derive(Clone, Debug, PartialEq)]
pub struct Rec {
    pub key: u8,
    pub ts: u64,
    pub kind: Kind,
}

impl Rec {
    pub fn is_del(&self) -> bool {
        matches!(self.kind, Kind::Del { .. })
    }
}

/// Position of a record: (blob id, append index)
pub type Pos = (usize, usize);

#[derive(Clone, Debug, Default)]
pub struct Model {
    /// every blob that currently exists (closed or active), append order inside
    pub blobs: BTreeMap<usize, Vec<Rec>>,
    /// closed blobs in the order pearl keeps them (push order)
    pub closed: Vec<usize>,
    pub active: Option<usize>,
    pub next_id: usize,
    pub allow_dup: bool,
    /// ids of blobs moved to the corrupted directory
    pub quarantined: Vec<usize>,
    /// blobs init found corrupted and left in the work dir (ignore_corrupted): not served, not counted, their ids stay taken
    pub ignored: Vec<usize>,
    /// every id that ever named a blob file in the work dir or the corrupted dir
    pub ids_ever: Vec<usize>,
}

#[derive(Clone, Debug, PartialEq, Eq)]
pub struct ExpEntry {
    pub ts: u64,
    pub deleted: bool,
    pub data: Vec<u8>,
    pub meta: MetaMap,
    pub pos: Pos,
}

impl Model {
    pub fn new(allow_dup: bool) -> Self {
        Model { allow_dup, ..Default::default() }
    }

    pub fn present(&self) -> Vec<usize> {
        let mut v = self.closed.clone();
        if let Some(a) = self.active {
            v.push(a);
        }
        v
    }

    /// All records of `key`, best first
    pub fn rank(&self, key: u8) -> Vec<(Pos, &Rec)> {
        let mut v: Vec<(Pos, &Rec)> = vec![];
        for b in self.present() {
            for (i, r) in self.blobs[&b].iter().enumerate() {
                if r.key == key {
                    v.push(((b, i), r));
                }
            }
        }
        v.sort_by(|a, b| b.1.ts.cmp(&a.1.ts).then(b.0 .0.cmp(&a.0 .0)).then(b.0 .1.cmp(&a.0 .1)));
        v
    }

    /// `rank` cut immediately after the first deletion marker
    pub fn cut(&self, key: u8) -> Vec<(Pos, &Rec)> {
        let mut out = vec![];
        for x in self.rank(key) {
            let del = x.1.is_del();
            out.push(x);
            if del {
                break;
            }
        }
        out
    }

    pub fn exp_read_all(&self, key: u8, with_marker: bool) -> Vec<ExpEntry> {
        self.cut(key)
            .into_iter()
            .filter(|(_, r)| with_marker || !r.is_del())
            .map(|(pos, r)| match &r.kind {
                Kind::Put { val, meta } => ExpEntry { ts: r.ts, deleted: false, data: val.clone(), meta: meta.clone(), pos },
                Kind::Del { meta } => ExpEntry { ts: r.ts, deleted: true, data: vec![], meta: meta.clone(), pos },
            })
            .collect()
    }

    /// Expected `read` (bytes) result
    pub fn exp_read(&self, key: u8) -> RR<Vec<u8>> {
        match self.rank(key).first() {
            None => RR::NotFound,
            Some((_, r)) => match &r.kind {
                Kind::Put { val, .. } => RR::Found(val.clone()),
                Kind::Del { .. } => RR::Deleted(r.ts),
            },
        }
    }

    /// Expected `contains` result
    pub fn exp_contains(&self, key: u8) -> RR<u64> {
        match self.rank(key).first() {
            None => RR::NotFound,
            Some((_, r)) => match &r.kind {
                Kind::Put { .. } => RR::Found(r.ts),
                Kind::Del { .. } => RR::Deleted(r.ts),
            },
        }
    }

    /// Position of the first-ranked record
    pub fn top_pos(&self, key: u8) -> Option<Pos> {
        self.rank(key).first().map(|x| x.0)
    }

    /// Expected `read_with(meta)`: first Put in the cut list with equal meta, else Deleted if the list
    /// ends in a marker, else NotFound. Also returns the position of the match.
    pub fn exp_read_with(&self, key: u8, meta: &MetaMap) -> (RR<Vec<u8>>, Option<Pos>) {
        let c = self.cut(key);
        for (pos, r) in &c {
            if let Kind::Put { val, meta: m } = &r.kind {
                if m == meta {
                    return (RR::Found(val.clone()), Some(*pos));
                }
            }
        }
        match c.last() {
            Some((_, r)) if r.is_del() => (RR::Deleted(r.ts), None),
            _ => (RR::NotFound, None),
        }
    }

    /// The key is live in `blob`: its blob-local first-ranked record is a Put
    pub fn live_in(&self, key: u8, blob: usize) -> bool {
        let mut best: Option<(u64, usize, bool)> = None;
        for (i, r) in self.blobs[&blob].iter().enumerate() {
            if r.key == key && best.map_or(true, |b| (r.ts, i) >= (b.0, b.1)) {
                best = Some((r.ts, i, r.is_del()));
            }
        }
        matches!(best, Some((_, _, false)))
    }

    pub fn ensure_active(&mut self) -> bool {
        if self.active.is_none() {
            let id = self.next_id;
            self.next_id += 1;
            self.blobs.insert(id, vec![]);
            self.active = Some(id);
            self.note_id(id);
            true
        } else {
            false
        }
    }

    pub fn note_id(&mut self, id: usize) {
        if !self.ids_ever.contains(&id) {
            self.ids_ever.push(id);
        }
    }

    /// `write`/`write_with`: returns true if a record was stored
    pub fn write(&mut self, key: u8, ts: u64, val: Vec<u8>, meta: Option<MetaMap>) -> bool {
        self.ensure_active();
        if !self.allow_dup {
            let found = match &meta {
                None => matches!(self.exp_read(key), RR::Found(_)),
                Some(m) => matches!(self.exp_read_with(key, m).0, RR::Found(_)),
            };
            if found {
                return false;
            }
        }
        let a = self.active.unwrap();
        self.blobs.get_mut(&a).unwrap().push(Rec { key, ts, kind: Kind::Put { val, meta: meta.unwrap_or_default() } });
        true
    }

    /// `delete`/`delete_with`: returns the number of blobs marked
    pub fn delete(&mut self, key: u8, ts: u64, meta: Option<MetaMap>, only_if: bool) -> u64 {
        if !only_if {
            self.ensure_active();
        }
        let mut targets = vec![];
        if let Some(a) = self.active {
            if !only_if || self.live_in(key, a) {
                targets.push(a);
            }
        }
        for b in self.closed.clone() {
            if self.live_in(key, b) {
                targets.push(b);
            }
        }
        for b in &targets {
            self.blobs.get_mut(b).unwrap().push(Rec { key, ts, kind: Kind::Del { meta: meta.clone().unwrap_or_default() } });
        }
        targets.len() as u64
    }

    /// `try_close_active_blob`: Ok iff there was an active blob
    pub fn close_active(&mut self) -> bool {
        match self.active.take() {
            Some(a) => {
                self.closed.push(a);
                true
            }
            None => false,
        }
    }

    /// `try_create_active_blob`: Ok iff there was no active blob
    pub fn create_active(&mut self) -> bool {
        if self.active.is_some() {
            return false;
        }
        self.ensure_active()
    }

    /// `try_restore_active_blob`: Ok iff no active blob and at least one closed blob
    pub fn restore_active(&mut self) -> bool {
        if self.active.is_some() || self.closed.is_empty() {
            return false;
        }
        self.active = self.closed.pop();
        true
    }

    /// `force_update_active_blob` whose predicate evaluated to true: a new blob replaces the active one
    pub fn force_update(&mut self) {
        if let Some(a) = self.active.take() {
            self.closed.push(a);
        }
        self.ensure_active();
    }

    /// Clean close followed by init (eager) / init_lazy on the same directory.
    pub fn restart(&mut self, lazy: bool) {
        let had_files = !self.present().is_empty() || !self.ignored.is_empty();
        self.restart_ext(lazy, had_files, 0);
    }

    /// Restart where the caller knows whether the work dir held any blob file when init started
    /// (files that get quarantined count) and the lowest id a new blob may get.
    pub fn restart_ext(&mut self, lazy: bool, dir_had_blob_files: bool, floor: usize) {
        let mut all = self.present();
        all.sort();
        self.active = None;
        self.closed = all;
        let floor = floor.max(self.quarantined.iter().max().map_or(0, |m| m + 1)).max(self.ignored.iter().max().map_or(0, |m| m + 1));
        if !dir_had_blob_files {
            // work dir without blob files: a fresh storage is created (also by init_lazy)
            self.next_id = floor;
            self.ensure_active();
        } else {
            self.next_id = floor.max(self.closed.last().map_or(0, |l| l + 1));
            if !lazy {
                if self.closed.is_empty() {
                    // every blob was quarantined or skipped: a fresh active blob
                    self.ensure_active();
                } else {
                    self.active = self.closed.pop();
                }
            }
        }
    }

    /// The blob was moved to the corrupted dir by init
    pub fn quarantine(&mut self, id: usize) {
        self.blobs.remove(&id);
        self.closed.retain(|b| *b != id);
        if self.active == Some(id) {
            self.active = None;
        }
        self.quarantined.push(id);
    }

    /// The blob was found corrupted by init and left where it is (ignore_corrupted)
    pub fn ignore(&mut self, id: usize) {
        self.blobs.remove(&id);
        self.closed.retain(|b| *b != id);
        if self.active == Some(id) {
            self.active = None;
        }
        if !self.ignored.contains(&id) {
            self.ignored.push(id);
        }
    }

    pub fn records_total(&self) -> usize {
        self.present().iter().map(|b| self.blobs[b].len()).sum()
    }

    pub fn count_of(&self, blob: usize) -> usize {
        self.blobs.get(&blob).map_or(0, |v| v.len())
    }

    pub fn keys_in(&self, blob: usize) -> Vec<u8> {
        let mut v: Vec<u8> = self.blobs.get(&blob).map_or(vec![], |v| v.iter().map(|r| r.key).collect());
        v.sort();
        v.dedup();
        v
    }
}
