//! Entry points for the coverage-guided (libFuzzer) targets in /verif/fuzz: bytes are decoded through
//! `arbitrary::Unstructured` into the same case types the proptest engines generate, and judged by the same oracles.
//! Raw byte mutation of blob files is deliberately not offered: compare-tracing forges checksums, which is
//! outside the <=32-bit corruption domain and would raise false alarms.

use crate::findings::Findings;
use crate::interp::Failure;
use crate::ops::*;
use crate::props;
use crate::runner::CaseOut;
use crate::sut::{Bloom, Cfg, Pred};
use arbitrary::Unstructured;
use serde::Serialize;
use std::path::{Path, PathBuf};
use std::sync::OnceLock;

type U<'a> = Unstructured<'a>;

fn verif_dir() -> PathBuf {
    PathBuf::from(std::env::var("VERIF_DIR").unwrap_or_else(|_| "/verif".into()))
}

fn findings(prop: &str) -> Findings {
    Findings::load(&verif_dir().join("known_findings.json"), prop)
}

fn scratch() -> PathBuf {
    static N: std::sync::atomic::AtomicU64 = std::sync::atomic::AtomicU64::new(0);
    let shm = Path::new("/dev/shm");
    let base = if shm.is_dir() { shm.to_path_buf() } else { std::env::temp_dir() };
    // one parent directory per campaign (set by tools/fuzz.sh), so that cleaning up one campaign never touches another
    let base = std::env::var("VERIF_FUZZ_SCRATCH").map(PathBuf::from).unwrap_or(base);
    base.join(format!("pearl-fuzz-{}", std::process::id())).join(format!("c{}", N.fetch_add(1, std::sync::atomic::Ordering::SeqCst) % 4))
}

fn pick<T: Clone>(u: &mut U, xs: &[T]) -> T {
    let i = u.int_in_range(0..=xs.len() - 1).unwrap_or(0);
    xs[i].clone()
}

pub fn decode_cfg(u: &mut U, keylens: &[usize]) -> Cfg {
    Cfg {
        keylen: pick(u, keylens),
        bloom: pick(u, &[Bloom::None, Bloom::Tiny, Bloom::Odd, Bloom::Default]),
        group: u.int_in_range(2..=9).unwrap_or(2),
        allow_dup: u.ratio(2, 3).unwrap_or(true),
        rt_workers: if u.ratio(1, 4).unwrap_or(false) { 0 } else { 2 },
        defer_ms: if u.arbitrary().unwrap_or(true) { (2, 5) } else { (60_000, 180_000) },
        ..Cfg::default()
    }
}

fn decode_ts(u: &mut U) -> u64 {
    match u.int_in_range(0u8..=13).unwrap_or(0) {
        12 => TS_MAX,
        13 => TS_MAX - 1,
        x => (x % 5) as u64,
    }
}

fn decode_vlen(u: &mut U, thresholds: bool) -> u32 {
    if thresholds {
        match u.int_in_range(0u8..=9).unwrap_or(0) {
            0 => 0,
            1 => u.int_in_range(0u32..=2).unwrap_or(0),
            2 | 3 => vlen_rel(u.int_in_range(0u8..=1).unwrap_or(0), u.int_in_range(-2i8..=2).unwrap_or(0)),
            4 => vlen_rel(u.int_in_range(2u8..=3).unwrap_or(2), u.int_in_range(-2i8..=2).unwrap_or(0)),
            5 => u.int_in_range(300u32..=6000).unwrap_or(300),
            _ => u.int_in_range(3u32..=300).unwrap_or(3),
        }
    } else {
        u.int_in_range(0u32..=40).unwrap_or(4)
    }
}

/// One op of the history language (no failpoints / cancellation: those have their own engines)
pub fn decode_op(u: &mut U, nkeys: u8, metas: u8, lifecycle: bool, damage: bool, thresholds: bool) -> Op {
    let k = u.int_in_range(0u8..=(if lifecycle { 23 } else { 15 })).unwrap_or(0);
    match k {
        0..=6 => Op::Write { key: u.int_in_range(0..=nkeys - 1).unwrap_or(0), ts: decode_ts(u), meta: u.int_in_range(0..=metas - 1).unwrap_or(0), vlen: decode_vlen(u, thresholds), fill: 0 },
        7..=9 => Op::Delete { key: u.int_in_range(0..=nkeys - 1).unwrap_or(0), ts: decode_ts(u), meta: u.int_in_range(0..=metas.min(3) - 1).unwrap_or(0), only_if: u.arbitrary().unwrap_or(false) },
        10 | 11 => Op::Switch,
        12 | 13 => Op::WaitIdle,
        14 | 15 => {
            let mut dmg = vec![];
            if damage {
                for _ in 0..u.int_in_range(0..=3).unwrap_or(0) {
                    let kind = match u.int_in_range(0u8..=4).unwrap_or(0) {
                        0 => DamageKind::Remove,
                        1 => DamageKind::ClearWritten,
                        2 => DamageKind::ZeroHeader,
                        3 => DamageKind::Append { n: u.int_in_range(1u16..=9000).unwrap_or(100), fill: u.arbitrary().unwrap_or(0) },
                        _ => DamageKind::Truncate { class: u.int_in_range(0u8..=9).unwrap_or(0), frac: u.arbitrary().unwrap_or(0) },
                    };
                    dmg.push(Damage { sel: u.arbitrary().unwrap_or(0), kind });
                }
            }
            Op::Reopen { lazy: u.ratio(1, 3).unwrap_or(false), remove_all_idx: u.ratio(1, 3).unwrap_or(false), damage: dmg }
        }
        16 => Op::CloseActive,
        17 => Op::CreateActive,
        18 => Op::Restore,
        19 => Op::ForceUpdate(pick(u, &[Pred::Always, Pred::Never, Pred::Records3, Pred::NoActive])),
        20 => Op::Offload { level: u.int_in_range(0u8..=2).unwrap_or(0), need: 0 },
        21 => Op::Fsync,
        22 => Op::Free,
        _ => Op::Restore,
    }
}

pub fn decode_case(data: &[u8], keylens: &[usize], nkeys: u8, metas: u8, lifecycle: bool, damage: bool, thresholds: bool, max_ops: usize) -> Case {
    let mut u = Unstructured::new(data);
    let cfg = decode_cfg(&mut u, keylens);
    let mut ops = vec![];
    while !u.is_empty() && ops.len() < max_ops {
        ops.push(decode_op(&mut u, nkeys, metas, lifecycle, damage, thresholds));
    }
    Case { cfg, ops }
}

static STRICT: OnceLock<bool> = OnceLock::new();

/// Reports a failure found by a fuzz target: saves the JSON replay and aborts the process (libFuzzer keeps the input)
fn report<T: Serialize>(prop: &str, phase: &str, case: &T, f: &Failure) -> ! {
    let body = serde_json::json!({"property": prop, "phase": phase, "failure": {"clause": f.clause, "detail": f.detail, "step": f.step, "op": f.op}, "case": case});
    let dir = verif_dir().join("replays").join("found");
    let _ = std::fs::create_dir_all(&dir);
    let path = dir.join(format!("{}-{}-fuzz-{:016x}.json", prop, phase, crate::runner::fnv(&serde_json::to_vec(case).unwrap_or_default())));
    let _ = std::fs::write(&path, serde_json::to_vec_pretty(&body).unwrap_or_default());
    eprintln!("VIOLATION property={} replay={}", prop, path.display());
    eprintln!("  {} -- {}", f.clause, f.detail);
    let _ = STRICT.get();
    std::process::abort()
}

/// Runs the oracle; a panic inside pearl (or the harness) on a decoded, valid case becomes a failure with clause "panic".
/// libfuzzer-sys installs a panic hook that aborts the process; it is replaced by a quiet one on first use.
fn finish(dir: &Path, run: impl FnOnce() -> Result<CaseOut, Failure>) -> Result<(), Failure> {
    static HOOK: OnceLock<()> = OnceLock::new();
    HOOK.get_or_init(|| crate::runner::install_quiet_panic_hook());
    let r = std::panic::catch_unwind(std::panic::AssertUnwindSafe(run));
    let _ = std::fs::remove_dir_all(dir);
    match r {
        Ok(r) => r.map(|_| ()),
        Err(p) => {
            let msg = if let Some(s) = p.downcast_ref::<&str>() { s.to_string() } else if let Some(s) = p.downcast_ref::<String>() { s.clone() } else { "panic".to_string() };
            Err(Failure { clause: "panic".into(), detail: msg, step: 0, op: String::new() })
        }
    }
}

/// History target: serves C01, C02, C04, C15 (all four oracles at once) - the profile of C04 plus counts
pub fn history(data: &[u8]) {
    let case = decode_case(data, &[1, 8, 33], 4, 4, true, false, false, 48);
    let mut p = props::c04::profile();
    p.checks.counts = true;
    p.checks.ids = true;
    p.gen.nkeys = 4;
    p.gen.metas = 3;
    let f = findings("C04");
    let dir = scratch();
    if let Err(e) = finish(&dir, || props::history::run_history(&case, &dir, &p, &f)) {
        // attribute to the property whose clause failed
        let prop = if e.clause.starts_with("read/") || e.clause.starts_with("contains/") { "C01" } else if e.clause.contains("count") || e.clause.starts_with("blobs_count") || e.clause.starts_with("next_blob_id") { "C15" } else if e.clause.starts_with("read_all") || e.clause.starts_with("read_with") || e.clause.starts_with("delete/") { "C02" } else { "C04" };
        // a campaign run on behalf of one property (VERIF_FUZZ_PROP) reports only that property's clauses;
        // the other properties' campaigns run the same target and report theirs
        match std::env::var("VERIF_FUZZ_PROP") {
            Ok(want) if want != prop && ["C01", "C02", "C04", "C15"].contains(&want.as_str()) => {}
            _ => report(prop, "history", &case, &e),
        }
    }
}

/// Restart / index damage target: C03
pub fn restart(data: &[u8]) {
    let case = decode_case(data, &[1, 8, 33], 5, 3, false, true, false, 48);
    let p = props::c03::profile();
    let f = findings("C03");
    let dir = scratch();
    if let Err(e) = finish(&dir, || props::history::run_history(&case, &dir, &p, &f)) {
        report("C03", "history", &case, &e);
    }
}

/// Index target: C09
pub fn index(data: &[u8]) {
    let mut u = Unstructured::new(data);
    let keylen = pick(&mut u, props::c09::PROBE_KEYLENS);
    let cap = if keylen == 1 { 120 } else { 1500 };
    let nkeys = u.int_in_range(1usize..=cap).unwrap_or(1);
    let mut versions = vec![1u16; nkeys];
    let pb = props::c09::per_block(keylen) as u16;
    let mut budget = 4000usize;
    for _ in 0..u.int_in_range(0..=4).unwrap_or(0) {
        let i = u.int_in_range(0..=nkeys - 1).unwrap_or(0);
        let run = match u.int_in_range(0u8..=7).unwrap_or(0) {
            0 => 2,
            1 => 3,
            2 => pb.saturating_sub(1).max(1),
            3 => pb,
            4 => pb + 1,
            5 => 2 * pb,
            6 => 2 * pb + 1,
            _ => u.int_in_range(1u16..=300).unwrap_or(1),
        };
        let run = (run as usize).min(budget.max(1));
        budget = budget.saturating_sub(run);
        versions[i] = run as u16;
    }
    let case = props::c09::IdxCase { keylen, bloom: u.arbitrary().unwrap_or(false), prefix: u.arbitrary().unwrap_or(0x55), versions, seed: u.arbitrary().unwrap_or(1), ts_span: u.int_in_range(1u8..=4).unwrap_or(2), del_pct: pick(&mut u, &[0u8, 15, 50]), blob_size: u.int_in_range(0u64..=1_000_000).unwrap_or(1), all_keys: nkeys <= 300, rev_order: matches!(keylen, 8 | 33 | 400) && u.ratio(1u8, 3u8).unwrap_or(false) };
    let dir = scratch();
    if let Err(e) = finish(&dir, || { if std::env::var("VERIF_FUZZ_SELFTEST").is_ok() && case.versions.len() == 7 { panic!("selftest panic") } props::c09::run_idx(&case, &dir) }) {
        report("C09", "index", &case, &e);
    }
}

/// Filters target: C10 (bloom / range / combined units and hierarchical scripts)
pub fn filters(data: &[u8]) {
    let mut u = Unstructured::new(data);
    let dir = scratch();
    if u.arbitrary().unwrap_or(false) {
        let keys = |u: &mut U, n: usize| -> Vec<Vec<u8>> { (0..u.int_in_range(0..=n).unwrap_or(0)).map(|_| { let l = u.int_in_range(0usize..=20).unwrap_or(1); (0..l).map(|_| u.arbitrary().unwrap_or(0)).collect() }).collect() };
        let k4 = |u: &mut U, n: usize| -> Vec<[u8; 4]> { (0..u.int_in_range(0..=n).unwrap_or(0)).map(|_| u.arbitrary().unwrap_or([0; 4])).collect() };
        let case = props::c10::BloomCase { elements: u.int_in_range(0usize..=3000).unwrap_or(10), hashers: u.int_in_range(0usize..=5).unwrap_or(2), max_bits: u.int_in_range(0usize..=5000).unwrap_or(100), fpr_millis: pick(&mut u, &[0u32, 1, 10, 500, 999, 1000]), a: keys(&mut u, 60), b: keys(&mut u, 20), probes: keys(&mut u, 20), file_offset: u.int_in_range(0u16..=699).unwrap_or(0), ka: k4(&mut u, 30), kb: k4(&mut u, 15), kprobes: k4(&mut u, 15), combined_with_bloom: u.arbitrary().unwrap_or(true), b_hashers: if u.arbitrary::<bool>().unwrap_or(false) { Some(u.int_in_range(0usize..=5).unwrap_or(2)) } else { None }, legacy_cfg: if u.arbitrary::<bool>().unwrap_or(false) { Some((u.int_in_range(0usize..=3000).unwrap_or(10), u.int_in_range(0usize..=5000).unwrap_or(100), pick(&mut u, &[0u32, 1, 10, 500, 1000]))) } else { None } };
        if let Err(e) = finish(&dir, || props::c10::run_bloom(&case, &dir)) {
            report("C10", "bloom", &case, &e);
        }
    } else {
        let mut ops = vec![];
        let group = u.int_in_range(2usize..=9).unwrap_or(2);
        let level = u.int_in_range(0usize..=2).unwrap_or(0);
        let bloom_bits = pick(&mut u, &[100usize, 1237, 64, 0]);
        while !u.is_empty() && ops.len() < 60 {
            let op = match u.int_in_range(0u8..=20).unwrap_or(0) {
                0..=9 => props::c10::HOp::Push { keys: (0..u.int_in_range(0..=5).unwrap_or(0)).map(|_| if u.ratio(1, 2).unwrap_or(false) { [0, 0, u.int_in_range(0u8..=3).unwrap_or(0), u.int_in_range(0u8..=3).unwrap_or(0)] } else { u.arbitrary().unwrap_or([0; 4]) }).collect(), with_bloom: u.ratio(7, 10).unwrap_or(true), slow: u.ratio(1, 7).unwrap_or(false), no_filter: false },
                10..=12 => props::c10::HOp::Pop,
                13 | 14 => props::c10::HOp::Remove { sel: u.arbitrary().unwrap_or(0) },
                15..=17 => props::c10::HOp::Offload { level: u.int_in_range(0u8..=3).unwrap_or(0), needed_small: u.arbitrary().unwrap_or(false) },
                18 => props::c10::HOp::Reload,
                _ => props::c10::HOp::AddToChild { sel: u.arbitrary().unwrap_or(0), key: u.arbitrary().unwrap_or([0; 4]) },
            };
            ops.push(op);
        }
        let case = props::c10::HierCase { group, level, bloom_bits, ops };
        if let Err(e) = finish(&dir, || props::c10::run_hier(&case, &dir)) {
            report("C10", "hier", &case, &e);
        }
    }
}

/// Damage target: C05 (data corruption bursts) and C16 (tools under truncation / flips)
pub fn damage(data: &[u8]) {
    let mut u = Unstructured::new(data);
    let dir = scratch();
    // a campaign run on behalf of one property exercises (and reports) only that property's half of the target
    let only = std::env::var("VERIF_FUZZ_PROP").ok();
    let c05_half: bool = u.arbitrary().unwrap_or(false);
    match only.as_deref() {
        Some("C05") if !c05_half => return,
        Some("C16") if c05_half => return,
        _ => {}
    }
    if c05_half {
        let mut cfg = decode_cfg(&mut u, &[1, 8, 33]);
        cfg.validate_data = u.arbitrary().unwrap_or(false);
        cfg.ignore_corrupted = u.ratio(1, 5).unwrap_or(false);
        cfg.allow_dup = true;
        let rec_sel = u.arbitrary().unwrap_or(0);
        let pos_frac = u.arbitrary().unwrap_or(0);
        let mask: u32 = u.arbitrary().unwrap_or(1);
        let mode = u.int_in_range(0u8..=3).unwrap_or(0);
        let lazy = u.ratio(1, 3).unwrap_or(false);
        let mut ops = vec![];
        while !u.is_empty() && ops.len() < 14 {
            let op = decode_op(&mut u, 3, 3, false, false, true);
            if !matches!(op, Op::Reopen { .. }) {
                ops.push(op);
            }
        }
        if ops.is_empty() {
            ops.push(Op::Write { key: 0, ts: 0, meta: 0, vlen: 10, fill: 0 });
        }
        let case = props::c05::CorruptCase { cfg, ops, rec_sel, pos_frac, mask: if mask == 0 { 1 } else { mask }, mode, lazy };
        let f = findings("C05");
        if let Err(e) = finish(&dir, || props::c05::run_corrupt(&case, &dir, &f)) {
            report("C05", "corrupt", &case, &e);
        }
    } else {
        let keylen = pick(&mut u, props::c16::TOOL_KEYLENS);
        let dmg = match u.int_in_range(0u8..=8).unwrap_or(0) {
            0 => props::c16::Dmg::None,
            1..=3 => props::c16::Dmg::Truncate { rec: u.arbitrary().unwrap_or(0), class: u.int_in_range(0u8..=3).unwrap_or(1), frac: u.arbitrary().unwrap_or(0) },
            _ => props::c16::Dmg::Flip { rec: u.arbitrary().unwrap_or(0), class: u.int_in_range(0u8..=14).unwrap_or(3), frac: u.arbitrary().unwrap_or(0), mask: u.int_in_range(1u8..=255).unwrap_or(1) },
        };
        let validate_every = u.int_in_range(0u8..=3).unwrap_or(0);
        let rt_workers = if u.ratio(1, 4).unwrap_or(false) { 0 } else { 2 };
        let mut ops = vec![];
        while !u.is_empty() && ops.len() < 12 {
            let op = decode_op(&mut u, 4, 4, false, false, true);
            if matches!(op, Op::Write { .. } | Op::Delete { .. }) {
                ops.push(op);
            }
        }
        if ops.is_empty() {
            ops.push(Op::Write { key: 0, ts: 0, meta: 0, vlen: 10, fill: 0 });
        }
        let case = props::c16::ToolCase { cfg: Cfg { keylen, allow_dup: true, rt_workers, ..Cfg::default() }, ops, dmg, validate_every };
        let f = findings("C16");
        if let Err(e) = finish(&dir, || props::c16::run_tool(&case, &dir, &f)) {
            report("C16", "tools", &case, &e);
        }
    }
}
