//! Per-file view of the I/O tap: ordered writes and syncs with begin/end sequence numbers.

use pearl::verif::io::{Event, Kind};
use std::collections::BTreeMap;
use std::path::{Path, PathBuf};

#[derive(Clone, Debug)]
pub struct WriteEv {
    pub offset: u64,
    pub len: u64,
    pub begin: u64,
    /// u64::MAX while the end event has not been seen
    pub end: u64,
    pub payload: Option<Vec<u8>>,
    pub injected: bool,
    /// bytes that reached the file (len, or fewer for an injected short write)
    pub written: u64,
}

#[derive(Clone, Debug)]
pub struct SyncEv {
    pub begin: u64,
    pub end: u64,
    pub injected: bool,
}

#[derive(Clone, Debug, Default)]
pub struct FileTrace {
    /// sequence number of the create event (None if the file existed before the session saw it)
    pub created: Option<u64>,
    pub writes: Vec<WriteEv>,
    pub syncs: Vec<SyncEv>,
    pub truncates: Vec<u64>,
    pub removed: Option<u64>,
    pub renamed_to: Option<(u64, PathBuf)>,
}

impl FileTrace {
    /// Bytes covered by the last completed sync that began before `at`: every write that ended before that sync began
    pub fn synced_len_at(&self, at: u64) -> u64 {
        let last = self.syncs.iter().filter(|s| !s.injected && s.end < at).last();
        match last {
            None => 0,
            Some(s) => self.writes.iter().filter(|w| w.end < s.begin).map(|w| w.offset + w.written).max().unwrap_or(0),
        }
    }

    pub fn written_len_at(&self, at: u64) -> u64 {
        self.writes.iter().filter(|w| w.begin < at).map(|w| w.offset + w.written).max().unwrap_or(0)
    }
}

#[derive(Clone, Debug, Default)]
pub struct Trace {
    pub files: BTreeMap<PathBuf, FileTrace>,
    pub last_seq: u64,
    open_ops: BTreeMap<u64, (PathBuf, Kind, usize)>,
}

impl Trace {
    pub fn absorb(&mut self, events: &[Event]) {
        for e in events {
            self.last_seq = self.last_seq.max(e.seq);
            if e.begin {
                let ft = self.files.entry(e.path.clone()).or_default();
                match e.kind {
                    Kind::Create => {
                        if !e.injected && ft.created.is_none() && ft.writes.is_empty() {
                            ft.created = Some(e.seq);
                        }
                    }
                    Kind::Write => {
                        ft.writes.push(WriteEv { offset: e.offset, len: e.len, begin: e.seq, end: u64::MAX, payload: e.payload.clone(), injected: e.injected, written: e.len });
                        self.open_ops.insert(e.op, (e.path.clone(), Kind::Write, ft.writes.len() - 1));
                    }
                    Kind::Sync => {
                        ft.syncs.push(SyncEv { begin: e.seq, end: u64::MAX, injected: e.injected });
                        self.open_ops.insert(e.op, (e.path.clone(), Kind::Sync, ft.syncs.len() - 1));
                    }
                    Kind::Truncate => {
                        ft.truncates.push(e.seq);
                        // the file starts over
                        ft.writes.clear();
                        ft.syncs.clear();
                        ft.created = Some(e.seq);
                    }
                    Kind::Remove => ft.removed = Some(e.seq),
                    Kind::Rename => ft.renamed_to = e.to.clone().map(|t| (e.seq, t)),
                    _ => {}
                }
            } else if let Some((path, kind, idx)) = self.open_ops.remove(&e.op) {
                if let Some(ft) = self.files.get_mut(&path) {
                    match kind {
                        Kind::Write => {
                            if let Some(w) = ft.writes.get_mut(idx) {
                                w.end = e.seq;
                                if e.injected {
                                    w.written = e.len;
                                }
                            }
                        }
                        Kind::Sync => {
                            if let Some(s) = ft.syncs.get_mut(idx) {
                                s.end = e.seq;
                                // the call site did not confirm the system call (it failed, or was skipped after the hook)
                                if e.injected {
                                    s.injected = true;
                                }
                            }
                        }
                        _ => {}
                    }
                }
            }
        }
    }

    pub fn file(&self, p: &Path) -> Option<&FileTrace> {
        self.files.get(p)
    }
}
