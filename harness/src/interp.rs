//! Interpreter: applies an op list to a real storage and to the reference model and evaluates the
//! enabled oracle clauses after every step.

use crate::findings::Findings;
use crate::model::Model;
use crate::ops::*;
use crate::sut::{self, key_bytes, to_meta, wait_quiet, Cfg, LoadMode, MetaMap, Pred, Sut, RR};
#[allow(unused_imports)]
use crate::ops::BlobDamage;
use bytes::Bytes;
use std::collections::BTreeSet;
use std::path::{Path, PathBuf};
use std::time::Duration;

#[derive(Clone, Debug, Default)]
pub struct Checks {
    /// C01: read / contains
    pub read: bool,
    /// C02: read_all*, read_with, delete counts, duplicate policy
    pub versions: bool,
    /// C15: counts and ids
    pub counts: bool,
    /// C15: disk_used against the directory listing (at idle points)
    pub disk_used: bool,
    /// C04: lifecycle calls succeed exactly when their precondition holds
    pub lifecycle: bool,
    /// C10: no filter says "absent" for a stored key
    pub filters: bool,
    /// C03/C07: new blob ids exceed every id ever seen
    pub ids: bool,
    /// Entry::load_data / load_meta in addition to Entry::load (C05)
    pub load_parts: bool,
}

impl Checks {
    pub fn all_data() -> Self {
        Checks { read: true, versions: true, ..Default::default() }
    }
}

#[derive(Clone, Debug)]
pub struct Failure {
    /// oracle clause, e.g. "read/mismatch"; the first path element names the API
    pub clause: String,
    pub detail: String,
    pub step: usize,
    pub op: String,
}

impl Failure {
    pub fn signature(&self) -> String {
        self.clause.clone()
    }
}

#[derive(Clone, Debug, Default)]
pub struct Stats {
    pub steps: u64,
    pub queries: u64,
    pub writes: u64,
    pub deletes: u64,
    pub reopens: u64,
}

pub const MAX_WAIT: Duration = Duration::from_secs(60);

/// Upper bound for a wait-for-quiet (VERIF_MAX_WAIT_S, default 60 s); exceeding it is reported as bg/stall
pub fn max_wait() -> Duration {
    Duration::from_secs(std::env::var("VERIF_MAX_WAIT_S").ok().and_then(|s| s.parse().ok()).unwrap_or(60))
}

pub struct Exec<'a> {
    pub cfg: Cfg,
    pub dir: PathBuf,
    pub sut: Option<Box<dyn Sut>>,
    pub model: Model,
    pub checks: Checks,
    pub nkeys: u8,
    pub metas: u8,
    pub labels: BTreeSet<&'static str>,
    pub stats: Stats,
    pub findings: &'a Findings,
    pub known_hits: BTreeSet<String>,
    pub step: usize,
    pub cur_op: String,
    /// the harness lost track of the expected state (after continuing past a known finding): stop comparing
    pub desynced: bool,
    /// set when an index file may be on disk while its index is in memory (C15 disk_used finding #12 domain)
    pub restored_once: bool,
    pub stale_possible: bool,
}

type R<T = ()> = std::result::Result<T, Failure>;

impl<'a> Exec<'a> {
    pub fn new(cfg: Cfg, dir: PathBuf, checks: Checks, nkeys: u8, metas: u8, findings: &'a Findings) -> Self {
        let model = Model::new(cfg.allow_dup);
        Exec { cfg, dir, sut: None, model, checks, nkeys, metas, labels: BTreeSet::new(), stats: Stats::default(), findings, known_hits: BTreeSet::new(), step: 0, cur_op: String::new(), desynced: false, restored_once: false, stale_possible: false }
    }

    pub fn fail<T>(&self, clause: &str, detail: String) -> R<T> {
        Err(Failure { clause: clause.to_string(), detail, step: self.step, op: self.cur_op.clone() })
    }

    /// Returns true (and records the hit) if `sig` is listed as an open known finding
    pub fn known(&mut self, sig: &str) -> bool {
        if self.findings.is_open(sig) {
            self.known_hits.insert(sig.to_string());
            true
        } else {
            false
        }
    }

    pub fn s(&self) -> &dyn Sut {
        self.sut.as_deref().expect("storage open")
    }

    pub fn key(&self, i: u8) -> Vec<u8> {
        key_bytes(self.cfg.keylen, i)
    }

    pub async fn open(&mut self, lazy: bool) -> R {
        match sut::open(&self.cfg, &self.dir, lazy).await {
            Ok(s) => {
                self.sut = Some(s);
                Ok(())
            }
            Err(e) => self.fail("init/err", format!("{:#}", e)),
        }
    }

    pub async fn start(&mut self) -> R {
        let _ = std::fs::remove_dir_all(&self.dir);
        self.open(false).await?;
        self.model.ensure_active();
        Ok(())
    }

    pub async fn wait_idle(&mut self) -> R {
        let deferred = self.cfg.deferred_short();
        match wait_quiet(self.s(), deferred, max_wait()).await {
            Ok(_) => Ok(()),
            Err(st) => {
                if !st.worker_alive() {
                    self.fail("bg/worker-dead", format!("{:?}", st))
                } else {
                    self.fail("bg/stall", format!("{:?}", st))
                }
            }
        }
    }

    /// Waits until queued messages are processed (not for deferred dumps)
    pub async fn wait_msgs(&mut self) -> R {
        match wait_quiet(self.s(), false, max_wait()).await {
            Ok(_) => Ok(()),
            Err(st) => {
                if !st.worker_alive() {
                    self.fail("bg/worker-dead", format!("{:?}", st))
                } else {
                    self.fail("bg/stall", format!("{:?}", st))
                }
            }
        }
    }

    pub fn pred_value(&self, p: Pred) -> bool {
        match p {
            Pred::Always => true,
            Pred::Never | Pred::SlowNever => false,
            Pred::Records3 => self.model.active.map_or(false, |a| self.model.count_of(a) >= 3),
            Pred::NoActive => self.model.active.is_none(),
        }
    }

    pub async fn apply(&mut self, idx: usize, op: &Op) -> R {
        self.step = idx;
        self.cur_op = format!("{:?}", op);
        self.stats.steps += 1;
        match op {
            Op::Write { key, ts, meta, vlen, fill } => {
                let mm = meta_pool(*meta);
                let val = value_bytes(idx, resolve_vlen(*vlen, self.cfg.keylen, &mm), *fill);
                if *vlen >= VLEN_REL {
                    self.labels.insert("threshold_value");
                }
                let had_active = self.model.active.is_some();
                let stored = self.model.write(*key, *ts, val.clone(), mm.clone());
                if !had_active {
                    self.labels.insert("write_creates_active");
                }
                if !stored {
                    self.labels.insert("dup_suppressed");
                }
                self.stats.writes += 1;
                let res = self.s().write(&self.key(*key), Bytes::from(val), *ts, mm.as_ref().map(to_meta)).await;
                if let Err(e) = res {
                    return self.fail("write/err", format!("{:#}", e));
                }
            }
            Op::Delete { key, ts, meta, only_if } => {
                let mm = meta_pool(*meta);
                let closed_before: Vec<usize> = self.model.closed.clone();
                let exp = self.model.delete(*key, *ts, mm.clone(), *only_if);
                if closed_before.iter().any(|b| self.model.blobs[b].last().map_or(false, |r| r.is_del() && r.key == *key && r.ts == *ts)) && exp > 0 {
                    self.labels.insert("delete_in_closed");
                    self.stale_possible = true;
                }
                self.stats.deletes += 1;
                match self.s().delete(&self.key(*key), *ts, mm.as_ref().map(to_meta), *only_if).await {
                    Err(e) => return self.fail("delete/err", format!("{:#}", e)),
                    Ok(got) => {
                        if self.checks.versions && got != exp {
                            return self.fail("delete/count", format!("returned {} expected {}", got, exp));
                        }
                    }
                }
            }
            Op::CloseActive => {
                let exp_ok = self.model.close_active();
                let got = self.s().try_close_active().await;
                self.lifecycle_result("close_active", exp_ok, got.map_err(|e| format!("{:#}", e)))?;
                if exp_ok {
                    self.labels.insert("repr_change");
                }
            }
            Op::CreateActive => {
                let exp_ok = self.model.create_active();
                let got = self.s().try_create_active().await;
                self.lifecycle_result("create_active", exp_ok, got.map_err(|e| format!("{:#}", e)))?;
            }
            Op::Restore => {
                let exp_ok = self.model.restore_active();
                let got = self.s().try_restore_active().await;
                self.lifecycle_result("restore_active", exp_ok, got.map_err(|e| format!("{:#}", e)))?;
                if exp_ok {
                    self.labels.insert("restore");
                    self.labels.insert("repr_change");
                    self.restored_once = true;
                }
            }
            Op::Switch => {
                if self.model.close_active() {
                    if let Err(e) = self.s().try_close_active().await {
                        return self.fail("close_active/err", format!("{:#}", e));
                    }
                    self.labels.insert("repr_change");
                }
                if self.model.create_active() {
                    if let Err(e) = self.s().try_create_active().await {
                        return self.fail("create_active/err", format!("{:#}", e));
                    }
                }
                self.labels.insert("switch");
            }
            Op::ForceUpdate(p) => {
                let fire = self.pred_value(*p);
                self.s().force_update(*p).await;
                self.wait_msgs().await?;
                if fire {
                    self.model.force_update();
                    self.labels.insert("force_update");
                    self.labels.insert("repr_change");
                }
            }
            Op::BgClose => {
                let applicable = self.model.active.is_some();
                self.s().close_active_bg().await;
                self.wait_msgs().await?;
                if applicable {
                    self.model.close_active();
                } else {
                    self.labels.insert("bg_inapplicable");
                }
            }
            Op::BgCreate => {
                let applicable = self.model.active.is_none();
                self.s().create_active_bg().await;
                self.wait_msgs().await?;
                if applicable {
                    self.model.create_active();
                } else {
                    self.labels.insert("bg_inapplicable");
                }
            }
            Op::BgRestore => {
                let applicable = self.model.active.is_none() && !self.model.closed.is_empty();
                self.s().restore_active_bg().await;
                self.wait_msgs().await?;
                if applicable {
                    self.model.restore_active();
                    self.restored_once = true;
                } else {
                    self.labels.insert("bg_inapplicable");
                }
            }
            Op::WaitIdle => {
                self.wait_idle().await?;
                if !self.model.closed.is_empty() {
                    self.labels.insert("dump_completed");
                    self.labels.insert("repr_change");
                }
            }
            Op::Offload { level, need } => {
                let freed = self.sut.as_mut().expect("open").offload(offload_needed(*need), *level as usize).await;
                if freed > 0 {
                    self.labels.insert("offloaded");
                    self.labels.insert("repr_change");
                }
            }
            Op::Fsync => {
                if let Err(e) = self.s().fsyncdata().await {
                    return self.fail("fsyncdata/err", format!("{}", e));
                }
            }
            Op::Free => {
                let _ = self.s().free_excess_resources().await;
            }
            Op::Reopen { lazy, remove_all_idx, damage } => {
                self.reopen(*lazy, *remove_all_idx, damage).await?;
            }
            Op::Burst { n, vlen } => {
                let len = resolve_vlen(*vlen, self.cfg.keylen, &None);
                let mut items = vec![];
                for j in 0..*n {
                    let key = 200u8.wrapping_add(j % 40);
                    let val = value_bytes(idx * 256 + j as usize, len, 0);
                    let ts = 1_000_000 + idx as u64 * 256 + j as u64;
                    self.model.write(key, ts, val.clone(), None);
                    items.push((self.key(key), val, ts));
                }
                self.stats.writes += *n as u64;
                let results = {
                    let s = self.s();
                    let futs: Vec<_> = items.into_iter().map(|(kb, val, ts)| async move { s.write(&kb, Bytes::from(val), ts, None).await }).collect();
                    futures::future::join_all(futs).await
                };
                for r in results {
                    if let Err(e) = r {
                        return self.fail("write/err", format!("burst: {:#}", e));
                    }
                }
                self.labels.insert("burst");
            }
            Op::CrashReopen { lazy, damage } => {
                self.crash_reopen(*lazy, damage).await?;
            }
            Op::Fail { .. } | Op::Cancel { .. } | Op::InitAgain => {
                // interpreted by the property modules that use them
            }
            Op::Probe { key, kind } => {
                let kb = key_bytes(self.cfg.keylen, *key);
                run_probe(self.s(), &kb, *kind).await;
            }
            Op::Abandon { lazy } => {
                let _ = wait_quiet(self.s(), false, max_wait()).await;
                drop(self.sut.take());
                // the dropped storage's worker task ends when its channel closes
                tokio::time::sleep(Duration::from_millis(30)).await;
                self.stats.reopens += 1;
                self.labels.insert("reopen");
                self.labels.insert("abandoned_without_close");
                self.stale_possible = false;
                self.open(*lazy).await?;
                self.model.restart(*lazy);
            }
        }
        Ok(())
    }

    fn lifecycle_result(&mut self, name: &str, exp_ok: bool, got: std::result::Result<(), String>) -> R {
        if got.is_ok() == exp_ok {
            return Ok(());
        }
        if self.checks.lifecycle || got.is_err() {
            // an unexpected error always matters (the model assumed the call took effect);
            // an unexpected success only when the lifecycle clause is enabled
            return self.fail(&format!("{}/result", name), format!("got {:?}, expected ok={}", got, exp_ok));
        }
        self.fail(&format!("{}/result", name), format!("got {:?}, expected ok={}", got, exp_ok))
    }

    pub async fn close(&mut self) -> R {
        if let Some(s) = self.sut.take() {
            if let Err(e) = s.close().await {
                return self.fail("close/err", format!("{:#}", e));
            }
        }
        Ok(())
    }

    pub async fn reopen(&mut self, lazy: bool, remove_all_idx: bool, damage: &[Damage]) -> R {
        // a closed blob that received a deletion marker after its index was written has a stale index file
        // unless the deferred re-dump already happened
        if self.stale_possible {
            for (id, is_idx, p) in sut::list_files(&self.dir) {
                if is_idx {
                    if let (Ok(ib), Ok(bm)) = (std::fs::read(&p), sut::blob_path(&self.dir, id).metadata()) {
                        if let Some(l) = crate::blobfmt::index_layout(&ib) {
                            if l.blob_size != bm.len() && self.model.active != Some(id) {
                                self.labels.insert("stale_index");
                            }
                        }
                    }
                }
            }
        }
        self.close().await?;
        self.stale_possible = false;
        self.stats.reopens += 1;
        self.labels.insert("reopen");
        self.labels.insert("repr_change");
        if lazy {
            self.labels.insert("reopen_lazy");
        }
        if remove_all_idx {
            for (_, is_idx, p) in sut::list_files(&self.dir) {
                if is_idx {
                    let _ = std::fs::remove_file(p);
                    self.labels.insert("index_removed");
                }
            }
        }
        let before: Vec<(PathBuf, Vec<u8>)> = if damage.is_empty() { vec![] } else { sut::list_files(&self.dir).into_iter().filter(|x| x.1).map(|x| (x.2.clone(), std::fs::read(&x.2).unwrap_or_default())).collect() };
        for d in damage {
            if let Some(l) = crate::damage::apply_index_damage(&self.dir, d, self.cfg.keylen) {
                self.labels.insert(l);
            }
        }
        // Known finding (open): an index file with its original length and an intact header whose later bytes differ (cut and
        // filled up again: the tail of a half-written file that was never written) passes every start-up check - no checksum
        // covers the sections of an index that is used from disk. Such a case is not judged from here on.
        for (p, old) in &before {
            if let Ok(now) = std::fs::read(p) {
                let h = crate::blobfmt::INDEX_HEADER_LEN;
                if now.len() == old.len() && now != *old && now.len() > h && now[..h] == old[..h] {
                    self.labels.insert("index_same_length_content_altered");
                    if self.known(INDEX_CONTENT_ALTERED) {
                        self.desynced = true;
                    }
                }
            }
        }
        self.open(lazy).await?;
        self.model.restart(lazy);
        Ok(())
    }

    /// Clean close, harness-made damage to blob files (a crash state), init. Every blob that no longer parses
    /// completely must be quarantined (its stale index file is removed by the harness so that init has to scan it);
    /// the model forgets those blobs.
    pub async fn crash_reopen(&mut self, lazy: bool, damage: &[BlobDamage]) -> R {
        let _ = wait_quiet(self.s(), false, max_wait()).await;
        self.close().await?;
        self.stats.reopens += 1;
        self.labels.insert("reopen");
        self.labels.insert("crash_reopen");
        for d in damage {
            crate::damage::apply_blob_damage(&self.dir, d, self.cfg.keylen);
        }
        let mut expect_quarantined = vec![];
        let mut all_ids = vec![];
        for (id, is_idx, p) in sut::list_files(&self.dir) {
            if is_idx {
                continue;
            }
            all_ids.push(id);
            let parsed = match crate::blobfmt::parse_blob_file(&p, self.cfg.keylen) {
                Ok(x) => x,
                Err(e) => return self.fail("harness/read", e.to_string()),
            };
            let ok = parsed.magic_ok && parsed.version == 1 && parsed.end == crate::blobfmt::ParseEnd::Clean && (!self.cfg.validate_data || parsed.records.iter().all(|r| r.data_crc_ok));
            if !ok {
                expect_quarantined.push(id);
                let _ = std::fs::remove_file(sut::index_path(&self.dir, id));
            }
        }
        // init looks at the work dir only when it decides between "existing storage" and "fresh storage"
        let had_files = !all_ids.is_empty();
        for (id, is_idx, _) in sut::list_files(&self.cfg.corrupted_path(&self.dir)) {
            if !is_idx {
                all_ids.push(id);
            }
        }
        // files that are no quarantined blobs may sit in the corrupted dir (an index file saved by an operator, notes):
        // they are neither counted nor do they reserve ids
        let cdir = self.cfg.corrupted_path(&self.dir);
        if cdir.is_dir() {
            let _ = std::fs::write(cdir.join(format!("{}.999.index", sut::PREFIX)), b"not a blob");
            let _ = std::fs::write(cdir.join("notes.2023.txt"), b"not a blob");
            // ... nor does a directory, whatever its name ends in
            let _ = std::fs::create_dir_all(cdir.join("saved-by-operator.blob"));
            let _ = std::fs::write(cdir.join("saved-by-operator.blob").join("readme"), b"not a blob");
            self.labels.insert("foreign_files_in_corrupted_dir");
        }
        self.open(lazy).await?;
        for id in &expect_quarantined {
            if sut::blob_path(&self.dir, *id).exists() && !self.cfg.ignore_corrupted {
                return self.fail("crash/damaged-blob-accepted", format!("blob {} does not parse completely but stayed in the work dir", id));
            }
            if self.cfg.ignore_corrupted {
                // left in the work dir: pearl neither serves nor counts it (corrupted_blobs_count counts saved blobs)
                self.model.ignore(*id);
                self.labels.insert("corrupted_blob_ignored");
            } else if self.model.blobs.contains_key(id) {
                self.model.quarantine(*id);
            } else {
                self.model.quarantined.push(*id);
            }
            self.labels.insert("quarantine");
        }
        let floor = all_ids.iter().max().map_or(0, |m| m + 1);
        self.model.restart_ext(lazy, had_files, floor);
        Ok(())
    }

    // --------------------------------------------------------------------------------------------
    // oracle clauses
    // --------------------------------------------------------------------------------------------

    pub async fn check(&mut self) -> R {
        if self.desynced {
            return Ok(());
        }
        let nk = self.nkeys;
        for key in 0..=nk {
            if self.checks.read {
                self.check_read(key).await?;
            }
            if self.checks.versions {
                self.check_versions(key).await?;
            }
            if self.checks.filters {
                self.check_filters(key).await?;
            }
        }
        if self.checks.counts {
            self.check_counts().await?;
        }
        if self.checks.ids {
            self.check_ids()?;
        }
        self.model_labels();
        Ok(())
    }

    pub async fn check_read(&mut self, key: u8) -> R {
        let kb = self.key(key);
        let exp = self.model.exp_read(key);
        self.stats.queries += 2;
        match self.s().read(&kb).await {
            Err(e) => return self.fail("read/err", format!("key {} expected {}: {:#}", key, exp.class(), e)),
            Ok(got) => {
                if got != exp {
                    return self.fail("read/mismatch", format!("key {} got {} expected {}", key, show_rr(&got), show_rr(&exp)));
                }
            }
        }
        let expc = self.model.exp_contains(key);
        match self.s().contains(&kb).await {
            Err(e) => return self.fail("contains/err", format!("key {}: {:#}", key, e)),
            Ok(got) => {
                if got != expc {
                    return self.fail("contains/mismatch", format!("key {} got {:?} expected {:?}", key, got, expc));
                }
            }
        }
        Ok(())
    }

    pub async fn check_versions(&mut self, key: u8) -> R {
        let kb = self.key(key);
        for dm in [true, false] {
            let name = if dm { "read_all_with_deletion_marker" } else { "read_all" };
            let exp = self.model.exp_read_all(key, dm);
            self.stats.queries += 1;
            let got = match self.s().read_all(&kb, dm, LoadMode::Full).await {
                Err(e) => return self.fail(&format!("{}/err", name), format!("key {}: {:#}", key, e)),
                Ok(g) => g,
            };
            if got.len() != exp.len() {
                return self.fail(&format!("{}/len", name), format!("key {} got {} entries expected {}", key, got.len(), exp.len()));
            }
            for (i, (g, e)) in got.into_iter().zip(exp.iter()).enumerate() {
                let g = match g {
                    Err(err) => return self.fail(&format!("{}/load-err", name), format!("key {} entry {}: {:#}", key, i, err)),
                    Ok(g) => g,
                };
                if g.ts != e.ts || g.deleted != e.deleted || g.data != e.data || g.meta != to_meta(&e.meta) {
                    return self.fail(&format!("{}/entry", name), format!("key {} entry {} got (ts {}, del {}, {}B {:?}, meta {:?}) expected (ts {}, del {}, {}B {:?}, meta {:?}) at {:?}", key, i, g.ts, g.deleted, g.data.len(), head(&g.data), g.meta, e.ts, e.deleted, e.data.len(), head(&e.data), e.meta, e.pos));
                }
            }
            if dm && self.checks.load_parts {
                let got = match self.s().read_all(&kb, dm, LoadMode::Parts).await {
                    Err(e) => return self.fail("read_all_with_deletion_marker/err", format!("key {}: {:#}", key, e)),
                    Ok(g) => g,
                };
                for (i, (g, e)) in got.into_iter().zip(exp.iter()).enumerate() {
                    let g = match g {
                        Err(err) => return self.fail("entry/load_parts-err", format!("key {} entry {}: {:#}", key, i, err)),
                        Ok(g) => g,
                    };
                    if g.data != e.data || g.meta != to_meta(&e.meta) {
                        return self.fail("entry/load_parts", format!("key {} entry {} data {}B vs {}B", key, i, g.data.len(), e.data.len()));
                    }
                }
            }
        }
        // read_with for every pool meta (index 0 = no meta is `read`)
        let top = self.model.top_pos(key);
        for mi in 1..=self.metas.max(1) {
            let mm: MetaMap = meta_pool(mi).unwrap_or_default();
            let (exp, pos) = self.model.exp_read_with(key, &mm);
            self.stats.queries += 1;
            match self.s().read_with(&kb, &to_meta(&mm)).await {
                Err(e) => return self.fail("read_with/err", format!("key {} meta {}: {:#}", key, mi, e)),
                Ok(got) => {
                    let ok = match (&got, &exp) {
                        (RR::Found(a), RR::Found(b)) => a == b,
                        (RR::Deleted(_), RR::Deleted(_)) => true,
                        (RR::NotFound, RR::NotFound) => true,
                        _ => false,
                    };
                    if !ok {
                        return self.fail("read_with/mismatch", format!("key {} meta {} got {} expected {}", key, mi, show_rr(&got), show_rr(&exp)));
                    }
                }
            }
            if let (Some(p), Some(t)) = (pos, top) {
                if p.0 != t.0 {
                    self.labels.insert("read_with_other_blob");
                }
            }
        }
        Ok(())
    }

    pub async fn check_filters(&mut self, key: u8) -> R {
        // only "definitely absent" answers for stored keys are violations; false positives are fine
        let stored = !self.model.rank(key).is_empty();
        if !stored {
            return Ok(());
        }
        let kb = self.key(key);
        self.stats.queries += 2;
        if self.s().check_filters(&kb).await == Some(false) {
            return self.fail("check_filters/false-negative", format!("key {} is stored but check_filters says Some(false)", key));
        }
        if !self.s().check_filter(&kb).await {
            return self.fail("check_filter/false-negative", format!("key {} is stored but BloomProvider::check_filter says NotContains", key));
        }
        // the overall filter of the storage (None when it cannot be built, e.g. off-loaded parts) must cover every blob
        let (present, denies, fast_denies) = self.s().overall_filter(&kb).await;
        self.stats.queries += 2;
        if present {
            self.labels.insert("overall_filter_present");
        }
        if denies {
            return self.fail("get_filter/false-negative", format!("key {} is stored but the filter returned by BloomProvider::get_filter says NotContains", key));
        }
        if fast_denies {
            return self.fail("check_filter_fast/false-negative", format!("key {} is stored but BloomProvider::check_filter_fast says NotContains", key));
        }
        Ok(())
    }

    pub async fn check_counts(&mut self) -> R {
        self.stats.queries += 5;
        let total = self.model.records_total();
        let got = self.s().records_count().await;
        if got != total {
            return self.fail("records_count/mismatch", format!("got {} expected {}", got, total));
        }
        let det = self.s().records_count_detailed().await;
        let exp_closed: Vec<(usize, usize)> = self.model.closed.iter().map(|b| (*b, self.model.count_of(*b))).collect();
        let got_closed: Vec<(usize, usize)> = det.iter().take(self.model.closed.len()).cloned().collect();
        if got_closed != exp_closed {
            return self.fail("records_count_detailed/closed", format!("got {:?} expected closed {:?}", det, exp_closed));
        }
        match self.model.active {
            Some(a) => {
                if det.len() != exp_closed.len() + 1 || det.last().unwrap().1 != self.model.count_of(a) {
                    return self.fail("records_count_detailed/active", format!("got {:?} expected active count {}", det, self.model.count_of(a)));
                }
            }
            None => {
                if det.len() != exp_closed.len() {
                    return self.fail("records_count_detailed/active", format!("got {:?} expected no active entry", det));
                }
            }
        }
        let ga = self.s().records_count_in_active().await;
        let ea = self.model.active.map(|a| self.model.count_of(a));
        if ga != ea {
            return self.fail("records_count_in_active_blob/mismatch", format!("got {:?} expected {:?}", ga, ea));
        }
        let bc = self.s().blobs_count().await;
        let ebc = self.model.present().len();
        if bc != ebc {
            return self.fail("blobs_count/mismatch", format!("got {} expected {}", bc, ebc));
        }
        let nid = self.s().next_blob_id();
        if nid != self.model.next_id {
            return self.fail("next_blob_id/mismatch", format!("got {} expected {}", nid, self.model.next_id));
        }
        let cb = self.s().corrupted_blobs_count();
        let ecb = self.model.quarantined.len();
        if cb != ecb {
            return self.fail("corrupted_blobs_count/mismatch", format!("got {} expected {}", cb, ecb));
        }
        Ok(())
    }

    /// disk_used against the directory listing; call only at idle points
    pub async fn check_disk_used(&mut self) -> R {
        let du = self.s().disk_used().await;
        let mut blobs = 0u64;
        let mut idx = 0u64;
        for (id, is_idx, p) in sut::list_files(&self.dir) {
            if self.model.ignored.contains(&id) {
                // a corrupted blob left in place (ignore_corrupted) is not part of the storage
                continue;
            }
            let len = p.metadata().map(|m| m.len()).unwrap_or(0);
            if is_idx {
                idx += len;
            } else {
                blobs += len;
            }
        }
        self.stats.queries += 1;
        if du != blobs + idx {
            return self.fail("disk_used/mismatch", format!("got {} expected {} (blobs {} + indexes {})", du, blobs + idx, blobs, idx));
        }
        Ok(())
    }

    pub fn check_ids(&mut self) -> R {
        // every blob file present must have an id that the model knows; new ids exceed all ids ever seen
        for (id, is_idx, _) in sut::list_files(&self.dir) {
            if !is_idx && !self.model.ids_ever.contains(&id) {
                return self.fail("ids/unknown-blob-file", format!("blob file id {} not expected (ids ever: {:?})", id, self.model.ids_ever));
            }
        }
        Ok(())
    }

    /// Non-triviality labels that only depend on the model state
    pub fn model_labels(&mut self) {
        for key in 0..self.nkeys {
            let rank = self.model.rank(key);
            if rank.is_empty() {
                continue;
            }
            let maxts = rank[0].1.ts;
            let mut per_blob: std::collections::BTreeMap<usize, usize> = Default::default();
            for (i, (pos, r)) in rank.iter().enumerate() {
                *per_blob.entry(pos.0).or_default() += 1;
                if r.is_del() && r.ts < maxts {
                    self.labels.insert("marker_below_max");
                }
                if i + 1 < rank.len() && rank[i + 1].1.ts == r.ts && rank[i + 1].0 .0 != pos.0 {
                    self.labels.insert("tie_cross_blob");
                }
                if i + 1 < rank.len() && rank[i + 1].1.ts == r.ts && rank[i + 1].0 .0 == pos.0 {
                    self.labels.insert("tie_same_blob");
                }
            }
            if per_blob.values().any(|c| *c >= 5) {
                self.labels.insert("ge5_versions_one_blob");
            }
            let cut = self.model.cut(key);
            let blobs: BTreeSet<usize> = cut.iter().map(|x| x.0 .0).collect();
            if blobs.len() >= 2 && cut.last().map_or(false, |x| x.1.is_del()) {
                self.labels.insert("cut_multi_blob_with_marker");
            }
            if blobs.len() >= 3 {
                self.labels.insert("cut_ge3_blobs");
            }
        }
        if self.model.closed.len() >= 2 {
            self.labels.insert("ge2_closed");
        }
    }
}

pub fn head(d: &[u8]) -> &[u8] {
    &d[..d.len().min(8)]
}

pub fn show_rr(r: &RR<Vec<u8>>) -> String {
    match r {
        RR::Found(d) => format!("Found({}B {:?})", d.len(), head(d)),
        RR::Deleted(t) => format!("Deleted({})", t),
        RR::NotFound => "NotFound".into(),
    }
}

pub fn scratch_root() -> PathBuf {
    let shm = Path::new("/dev/shm");
    let base = if shm.is_dir() { shm.to_path_buf() } else { std::env::temp_dir() };
    base.join(format!("pearl-verif-{}", std::process::id()))
}

/// Applies the model side of an op only (no storage involved). Covers the ops used in suffixes of the
/// cancellation check; returns false for ops it does not handle.
/// Runs the query an `Op::Probe` stands for and drops the answer
pub async fn run_probe(s: &dyn Sut, kb: &[u8], kind: u8) {
    match kind {
        0 => {
            let _ = s.read(kb).await;
        }
        1 => {
            let _ = s.read_all(kb, true, LoadMode::Full).await;
        }
        2 => {
            let _ = s.contains(kb).await;
        }
        3 => {
            if let Some(m) = meta_pool(1) {
                let _ = s.read_with(kb, &to_meta(&m)).await;
            }
        }
        _ => {
            let _ = s.check_filters(kb).await;
        }
    }
}

/// Signature of the open finding "index file of the right length with an intact header but altered later bytes is accepted"
pub const INDEX_CONTENT_ALTERED: &str = "restart/index-content-altered-at-same-length";

pub fn model_apply(model: &mut Model, keylen: usize, idx: usize, op: &Op) -> bool {
    match op {
        Op::Write { key, ts, meta, vlen, fill } => {
            let mm = meta_pool(*meta);
            let val = value_bytes(idx, resolve_vlen(*vlen, keylen, &mm), *fill);
            model.write(*key, *ts, val, mm);
            true
        }
        Op::Delete { key, ts, meta, only_if } => {
            model.delete(*key, *ts, meta_pool(*meta), *only_if);
            true
        }
        Op::CloseActive => {
            model.close_active();
            true
        }
        Op::CreateActive => {
            model.create_active();
            true
        }
        Op::Restore => {
            model.restore_active();
            true
        }
        Op::Switch => {
            model.close_active();
            model.create_active();
            true
        }
        Op::Abandon { lazy } => {
            model.restart(*lazy);
            true
        }
        Op::Reopen { lazy, .. } => {
            model.restart(*lazy);
            true
        }
        Op::ForceUpdate(p) => {
            let fire = match p {
                Pred::Always => true,
                Pred::Never | Pred::SlowNever => false,
                Pred::Records3 => model.active.map_or(false, |a| model.count_of(a) >= 3),
                Pred::NoActive => model.active.is_none(),
            };
            if fire {
                model.force_update();
            }
            true
        }
        Op::WaitIdle | Op::Fsync | Op::Free | Op::Offload { .. } => true,
        _ => false,
    }
}
