//! Judges a directory in a crash state: what must a storage opened on it serve, quarantine, recover?
//! The expectation is derived from the physical content of the blob files through the harness's own
//! parser (blobfmt), never from pearl's scan.

use crate::blobfmt::{self, ParseEnd, ParsedBlob, ParsedRec};
use crate::findings::Findings;
use crate::interp::{Checks, Exec, Failure};
use crate::model::{Kind, Model, Rec};
use crate::ops::Op;
use crate::sut::{self, Cfg};
use std::collections::{BTreeMap, BTreeSet};
use std::path::{Path, PathBuf};

pub struct CrashVerdict {
    pub labels: BTreeSet<String>,
    pub queries: u64,
    /// records physically complete per blob id (present or quarantined), for ack cross-checks
    pub physical: BTreeMap<usize, Vec<ParsedRec>>,
    pub quarantined: Vec<usize>,
}

fn rec_of(r: &ParsedRec, key_of: &dyn Fn(&[u8]) -> Option<u8>) -> Option<Rec> {
    let key = key_of(&r.hdr.key)?;
    let meta: crate::sut::MetaMap = blobfmt::parse_meta(&r.meta)?.into_iter().collect();
    let kind = if r.deleted() { Kind::Del { meta } } else { Kind::Put { val: r.data.clone(), meta } };
    Some(Rec { key, ts: r.hdr.timestamp, kind })
}

fn fail<T>(clause: &str, detail: String) -> Result<T, Failure> {
    Err(Failure { clause: clause.into(), detail, step: 0, op: "crash-judge".into() })
}

/// A blob file is well-formed iff its header is valid and the records tile it exactly with valid checksums
/// (data checksums only matter when the storage validates data during the scan)
fn wellformed(p: &ParsedBlob, validate_data: bool) -> bool {
    p.magic_ok && p.version == 1 && p.end == ParseEnd::Clean && (!validate_data || p.records.iter().all(|r| r.data_crc_ok))
}

/// Opens a storage on `dir` (a crash state) and checks init, served data, quarantine and recovery.
/// `nkeys`: key indexes 0..nkeys are mapped through sut::key_bytes.
pub async fn judge_crash_dir(cfg: &Cfg, dir: &Path, lazy: bool, nkeys: u8, findings: &Findings, second_crash_removes_indexes: bool) -> Result<CrashVerdict, Failure> {
    let keylen = cfg.keylen;
    let key_of = |kb: &[u8]| -> Option<u8> { (0..=nkeys).find(|i| sut::key_bytes(keylen, *i) == kb).or_else(|| (200u8..=240).find(|i| sut::key_bytes(keylen, *i) == kb)) };
    let mut labels = BTreeSet::new();
    // 1. physical content before init
    let mut before: BTreeMap<usize, (PathBuf, Vec<u8>, ParsedBlob)> = BTreeMap::new();
    for (id, is_idx, p) in sut::list_files(dir) {
        if is_idx {
            continue;
        }
        let bytes = std::fs::read(&p).map_err(|e| Failure { clause: "harness/read".into(), detail: e.to_string(), step: 0, op: String::new() })?;
        let parsed = blobfmt::parse_blob_bytes(&bytes, keylen);
        before.insert(id, (p, bytes, parsed));
    }
    let had_files = !before.is_empty();
    // 2. init must succeed
    let mut ex = Exec::new(cfg.clone(), dir.to_path_buf(), Checks { read: true, versions: true, load_parts: false, ..Default::default() }, nkeys, 2, findings);
    match sut::open(cfg, dir, lazy).await {
        Ok(s) => ex.sut = Some(s),
        Err(e) => return fail("crash/init-err", format!("{:#}", e)),
    }
    // 3. which blobs must be present, which quarantined
    let corrupted = dir.join("corrupted");
    let mut model = Model::new(true);
    let mut physical: BTreeMap<usize, Vec<ParsedRec>> = BTreeMap::new();
    let mut quarantined = vec![];
    let mut expected_corrupted = 0usize;
    for (id, (path, bytes, parsed)) in &before {
        physical.insert(*id, parsed.records.clone());
        let ok = wellformed(parsed, cfg.validate_data);
        let moved = corrupted.join(path.file_name().unwrap());
        if ok {
            if !path.exists() {
                return fail("crash/wellformed-blob-dropped", format!("blob {} parses completely ({} records) but was removed from the work dir", id, parsed.records.len()));
            }
            let mut recs = vec![];
            for (ri, r) in parsed.records.iter().enumerate() {
                match rec_of(r, &key_of) {
                    Some(x) => recs.push(x),
                    // The LAST record of a blob whose header and data are complete but whose meta bytes do not decode
                    // canonically: a tear inside the meta section that was filled up (zeros) to the recorded length. No
                    // checksum covers meta bytes, so the storage cannot notice; whether it serves that record (with
                    // whatever its decoder makes of the bytes) or drops the blob is not judged - init has succeeded,
                    // that is all this state allows to demand.
                    None if ri + 1 == parsed.records.len() && key_of(&r.hdr.key).is_some() => {
                        labels.insert("undetectably_torn_meta_in_tail_record".to_string());
                        let _ = ex.close().await;
                        let physical: BTreeMap<usize, Vec<ParsedRec>> = before.iter().map(|(i, (_, _, p))| (*i, p.records.clone())).collect();
                        return Ok(CrashVerdict { labels, queries: 0, physical, quarantined });
                    }
                    None => return fail("harness/model", format!("blob {} holds a record with an unknown key or undecodable meta", id)),
                }
            }
            model.blobs.insert(*id, recs);
            model.closed.push(*id);
            model.note_id(*id);
        } else {
            labels.insert("torn_or_damaged_blob".to_string());
            // A blob that does not parse completely can still be accepted when its index file is intact and consistent
            // with the file size... impossible here: a valid index records the blob size and the record tiling.
            if path.exists() {
                if cfg.ignore_corrupted {
                    labels.insert("ignored".to_string());
                    // skipped: stays in place, serves nothing
                    if std::fs::read(path).map(|b| &b != bytes).unwrap_or(true) {
                        return fail("crash/ignored-blob-modified", format!("blob {}", id));
                    }
                } else {
                    // not quarantined: then it must have been accepted; every record it serves must be physically complete
                    return fail("crash/damaged-blob-accepted", format!("blob {} does not parse completely ({:?}) but stayed in the work dir", id, parsed.end));
                }
            } else {
                match std::fs::read(&moved) {
                    Ok(b) if &b == bytes => {
                        labels.insert("quarantined_intact".to_string());
                        quarantined.push(*id);
                        expected_corrupted += 1;
                    }
                    Ok(_) => return fail("crash/quarantined-not-intact", format!("blob {} was moved to the corrupted dir with different bytes", id)),
                    Err(_) => return fail("crash/blob-file-lost", format!("blob {} disappeared", id)),
                }
            }
        }
    }
    if ex.s().corrupted_blobs_count() != expected_corrupted {
        return fail("crash/corrupted-count", format!("corrupted_blobs_count {} expected {}", ex.s().corrupted_blobs_count(), expected_corrupted));
    }
    // without data validation a size-complete record with altered data is accepted and answers Err when read:
    // allowed, but not expressible by the model comparison below
    if !cfg.validate_data && before.values().any(|(_, _, p)| p.end == ParseEnd::Clean && p.records.iter().any(|r| !r.data_crc_ok)) {
        labels.insert("unvalidated_damaged_data_accepted".to_string());
        let _ = ex.close().await;
        return Ok(CrashVerdict { labels, queries: 0, physical, quarantined });
    }
    let floor = before.keys().max().map_or(0, |m| m + 1);
    model.quarantined = quarantined.clone();
    model.restart_ext(lazy, had_files, floor);
    ex.model = model;
    // 4. served data = exactly the physically complete records of the present blobs
    ex.check().await.map_err(|mut f| {
        f.clause = format!("crash/served/{}", f.clause);
        f
    })?;
    // 5. recovery of quarantined blobs: every complete record before the damage, exact bytes
    for id in &quarantined {
        let (path, _, parsed) = &before[id];
        let q = corrupted.join(path.file_name().unwrap());
        let out = dir.join(format!("recovered.{}.bin", id));
        if !parsed.magic_ok || before[id].1.len() < blobfmt::BLOB_HEADER_LEN {
            continue; // nothing recoverable is promised without a blob header
        }
        if let Err(e) = pearl::tools::recovery_blob(&q, &out, 0, false) {
            return fail("crash/recovery-err", format!("blob {}: {:#}", id, e));
        }
        let rec = blobfmt::parse_blob_file(&out, keylen).map_err(|e| Failure { clause: "harness/read".into(), detail: e.to_string(), step: 0, op: String::new() })?;
        let sig = |r: &ParsedRec| (r.hdr.key.clone(), r.hdr.timestamp, r.hdr.flags, blobfmt::parse_meta(&r.meta), r.data.clone());
        // a torn record meta has no checksum of its own: a tear that leaves the header and the data intact is only
        // visible as a meta that no longer decodes to exactly meta_size bytes; such a record is part of the damage
        let want: Vec<_> = parsed.records.iter().take_while(|r| r.data_crc_ok && (r.meta.is_empty() || blobfmt::parse_meta(&r.meta).is_some())).map(sig).collect();
        let got: Vec<_> = rec.records.iter().map(sig).collect();
        let undetectable_tear = parsed.records.iter().any(|r| !r.meta.is_empty() && blobfmt::parse_meta(&r.meta).is_none());
        if (rec.end != ParseEnd::Clean && !undetectable_tear) || got.len() < want.len() || got[..want.len()] != want[..] {
            return fail("crash/recovery-incomplete", format!("blob {}: recovered {} records, {} complete records precede the damage", id, got.len(), want.len()));
        }
        labels.insert("recovered".to_string());
        let _ = std::fs::remove_file(&out);
    }
    // 6. the storage is usable and what is written now survives further restarts (incl. loss of all index files)
    let base = 1000usize;
    for k in 0..nkeys.min(4) {
        let op = Op::Write { key: k, ts: 900_000 + k as u64, meta: 0, vlen: 11 + k as u32, fill: 0 };
        ex.apply(base + k as usize, &op).await.map_err(|mut f| {
            f.clause = format!("crash/after-recovery/{}", f.clause);
            f
        })?;
    }
    ex.check().await.map_err(|mut f| {
        f.clause = format!("crash/after-recovery/{}", f.clause);
        f
    })?;
    let reopen = Op::Reopen { lazy: false, remove_all_idx: second_crash_removes_indexes, damage: vec![] };
    ex.apply(base + 10, &reopen).await.map_err(|mut f| {
        f.clause = format!("crash/second-restart/{}", f.clause);
        f
    })?;
    if ex.s().corrupted_blobs_count() != expected_corrupted {
        return fail("crash/second-restart/corrupted-count", format!("corrupted_blobs_count {} expected {}", ex.s().corrupted_blobs_count(), expected_corrupted));
    }
    ex.check().await.map_err(|mut f| {
        f.clause = format!("crash/second-restart/{}", f.clause);
        f
    })?;
    ex.close().await?;
    Ok(CrashVerdict { labels, queries: ex.stats.queries, physical, quarantined })
}
