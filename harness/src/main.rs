use pvh::findings::Findings;
use pvh::runner::*;
use std::path::PathBuf;
use std::sync::atomic::{AtomicBool, AtomicU64, Ordering};
use std::sync::Arc;
use std::time::{Duration, Instant};

fn usage() -> ! {
    eprintln!("usage: vcheck <property id> [--tier quick|thorough] [--replay <file>]");
    std::process::exit(2)
}

fn main() {
    let args: Vec<String> = std::env::args().collect();
    if args.len() < 2 {
        usage();
    }
    if args[1] == "child-c07" {
        // second process of the two-process phase of the no-harm check
        std::process::exit(pvh::props::c07::child_main(args.get(2).map(|s| s.as_str()).unwrap_or("")));
    }
    if args[1] == "child-c06" {
        // child process of the kill-mode crash check
        std::process::exit(pvh::props::c06::child_main(args.get(2).map(|s| s.as_str()).unwrap_or("")));
    }
    let prop = args[1].clone();
    let mut tier = match std::env::var("VERIF_TIER").as_deref() {
        Ok("thorough") => Tier::Thorough,
        _ => Tier::Quick,
    };
    let mut replay: Option<PathBuf> = None;
    let mut i = 2;
    while i < args.len() {
        match args[i].as_str() {
            "--tier" => {
                i += 1;
                tier = match args.get(i).map(|s| s.as_str()) {
                    Some("thorough") => Tier::Thorough,
                    Some("quick") => Tier::Quick,
                    _ => usage(),
                };
            }
            "--replay" => {
                i += 1;
                replay = args.get(i).map(PathBuf::from);
            }
            _ => usage(),
        }
        i += 1;
    }
    let seed: u64 = std::env::var("VERIF_SEED").ok().and_then(|s| s.parse().ok()).unwrap_or(0);
    let jobs: usize = std::env::var("VERIF_JOBS").ok().and_then(|s| s.parse().ok()).unwrap_or_else(|| std::thread::available_parallelism().map(|n| n.get()).unwrap_or(4).min(16));
    let verif_dir = PathBuf::from(std::env::var("VERIF_DIR").unwrap_or_else(|_| "/verif".into()));
    let findings = Findings::load(&verif_dir.join("known_findings.json"), &prop);
    let scratch = pvh::interp::scratch_root();
    let _ = std::fs::remove_dir_all(&scratch);
    let _ = std::fs::create_dir_all(&scratch);
    install_quiet_panic_hook();

    let ctx = Arc::new(RunCtx { prop: prop.clone(), tier, seed, jobs, verif_dir, findings, scratch: scratch.clone(), progress: AtomicU64::new(0), stop: AtomicBool::new(false) });

    // watchdog: no finished case for a long time => inconclusive (exit 2), never a violation
    {
        let ctx = ctx.clone();
        let scratch = scratch.clone();
        std::thread::spawn(move || {
            let limit = Duration::from_secs(std::env::var("VERIF_WATCHDOG_S").ok().and_then(|s| s.parse().ok()).unwrap_or(300));
            let mut last = ctx.progress.load(Ordering::SeqCst);
            let mut since = Instant::now();
            loop {
                std::thread::sleep(Duration::from_secs(2));
                let cur = ctx.progress.load(Ordering::SeqCst);
                if cur != last {
                    last = cur;
                    since = Instant::now();
                } else if since.elapsed() > limit {
                    println!("INCONCLUSIVE property={} no progress for {} s (hang or overload), exit 2", ctx.prop, limit.as_secs());
                    let _ = std::fs::remove_dir_all(&scratch);
                    std::process::exit(2);
                }
            }
        });
    }

    let started = Instant::now();
    let code = if let Some(path) = replay {
        pvh::props::replay(&ctx, &path)
    } else {
        match pvh::props::run(&ctx) {
            None => {
                eprintln!("unknown property {}", prop);
                2
            }
            Some(mut res) => {
                // a coverage-guided campaign that ran before this process (thorough tier) is part of the evidence
                if let Ok(p) = std::env::var("VERIF_FUZZ_JSON") {
                    if let Some(v) = std::fs::read(&p).ok().and_then(|b| serde_json::from_slice::<serde_json::Value>(&b).ok()) {
                        res.report.extra.insert("libfuzzer_campaign".into(), v);
                    }
                }
                write_evidence(&ctx, &res.report, &res.meta(), started.elapsed().as_secs_f64());
                conclude(&ctx, &res.report)
            }
        }
    };
    if std::env::var("VERIF_KEEP").is_err() {
        let _ = std::fs::remove_dir_all(&scratch);
    } else {
        eprintln!("scratch kept at {}", scratch.display());
    }
    // Leave without running exit handlers or thread-local destructors: runtimes that were shut down in the background
    // (C08: tasks of a dead-locked burst, a known finding) may still have threads running, and tearing the process down
    // under them crashed now and then (SIGSEGV inside libc at exit) after the verdict had been printed
    use std::io::Write;
    let _ = std::io::stdout().flush();
    let _ = std::io::stderr().flush();
    unsafe { libc::_exit(code) }
}
