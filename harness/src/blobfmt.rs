//! Independent reader of pearl's on-disk formats (blob header, record header, index header).
//! Written from the format description, with its own CRC32C, so that it can act as an oracle for
//! what the storage wrote.

use std::path::Path;

pub const BLOB_HEADER_LEN: usize = 20;
pub const BLOB_MAGIC: u64 = 0xdeaf_abcd;
pub const RECORD_MAGIC: u64 = 0xacdc_bcde;
pub const INDEX_HEADER_LEN: usize = 83;
pub const INDEX_WRITTEN_BYTE: usize = 72;

/// CRC32C (Castagnoli), reflected, init/xorout 0xFFFFFFFF - bitwise table built at first use
fn crc_table() -> &'static [u32; 256] {
    static TABLE: std::sync::OnceLock<[u32; 256]> = std::sync::OnceLock::new();
    TABLE.get_or_init(|| {
        let mut t = [0u32; 256];
        for i in 0..256u32 {
            let mut c = i;
            for _ in 0..8 {
                c = if c & 1 != 0 { (c >> 1) ^ 0x82F6_3B78 } else { c >> 1 };
            }
            t[i as usize] = c;
        }
        t
    })
}

pub fn crc32c(data: &[u8]) -> u32 {
    let t = crc_table();
    let mut c = 0xFFFF_FFFFu32;
    for b in data {
        c = t[((c ^ *b as u32) & 0xFF) as usize] ^ (c >> 8);
    }
    c ^ 0xFFFF_FFFF
}

/// Four bytes which, appended to `prefix`, make the CRC32C of the whole equal `target` (CRC forcing by walking the
/// table backwards: the top byte of every table entry is unique)
pub fn crc32c_forge_suffix(prefix: &[u8], target: u32) -> [u8; 4] {
    let t = crc_table();
    let mut reg = 0xFFFF_FFFFu32;
    for b in prefix {
        reg = t[((reg ^ *b as u32) & 0xFF) as usize] ^ (reg >> 8);
    }
    let want = target ^ 0xFFFF_FFFF;
    let mut idx = [0usize; 4];
    let mut r = want;
    for i in (0..4).rev() {
        let top = r >> 24;
        let j = (0..256).find(|j| t[*j] >> 24 == top).expect("top bytes of the table are a permutation");
        idx[i] = j;
        r = (r ^ t[j]) << 8;
    }
    let mut out = [0u8; 4];
    for i in 0..4 {
        out[i] = ((reg ^ idx[i] as u32) & 0xFF) as u8;
        reg = t[idx[i]] ^ (reg >> 8);
    }
    debug_assert_eq!(reg, want);
    out
}

fn u64_at(b: &[u8], o: usize) -> u64 {
    u64::from_le_bytes(b[o..o + 8].try_into().unwrap())
}
fn u32_at(b: &[u8], o: usize) -> u32 {
    u32::from_le_bytes(b[o..o + 4].try_into().unwrap())
}

#[derive(Clone, Debug, PartialEq, Eq)]
pub struct RecHdr {
    pub key: Vec<u8>,
    pub meta_size: u64,
    pub data_size: u64,
    pub flags: u8,
    pub blob_offset: u64,
    pub timestamp: u64,
    pub data_checksum: u32,
    pub header_checksum: u32,
}

#[derive(Clone, Debug, PartialEq, Eq)]
pub struct ParsedRec {
    /// position of the record header in the file
    pub pos: u64,
    pub hdr: RecHdr,
    pub header_len: u64,
    pub meta: Vec<u8>,
    pub data: Vec<u8>,
    pub header_crc_ok: bool,
    pub data_crc_ok: bool,
}

impl ParsedRec {
    pub fn end(&self) -> u64 {
        self.pos + self.header_len + self.hdr.meta_size + self.hdr.data_size
    }
    pub fn meta_pos(&self) -> u64 {
        self.pos + self.header_len
    }
    pub fn data_pos(&self) -> u64 {
        self.pos + self.header_len + self.hdr.meta_size
    }
    pub fn deleted(&self) -> bool {
        self.hdr.flags & 1 == 1
    }
}

#[derive(Clone, Debug, PartialEq, Eq)]
pub enum ParseEnd {
    /// the records tile the file exactly
    Clean,
    /// bytes remain at `pos` that do not form a complete valid record
    Trailing { pos: u64, reason: String },
}

#[derive(Clone, Debug)]
pub struct ParsedBlob {
    pub magic_ok: bool,
    pub version: u32,
    pub flags: u64,
    pub records: Vec<ParsedRec>,
    pub end: ParseEnd,
    pub len: u64,
}

/// Serialized record header length for a key length
pub fn rec_header_len(keylen: usize) -> usize {
    57 + keylen
}

pub fn parse_rec_header(b: &[u8], keylen: usize) -> Option<RecHdr> {
    if b.len() < rec_header_len(keylen) {
        return None;
    }
    if u64_at(b, 0) != RECORD_MAGIC {
        return None;
    }
    if u64_at(b, 8) != keylen as u64 {
        return None;
    }
    let k = 16 + keylen;
    Some(RecHdr {
        key: b[16..k].to_vec(),
        meta_size: u64_at(b, k),
        data_size: u64_at(b, k + 8),
        flags: b[k + 16],
        blob_offset: u64_at(b, k + 17),
        timestamp: u64_at(b, k + 25),
        data_checksum: u32_at(b, k + 33),
        header_checksum: u32_at(b, k + 37),
    })
}

pub fn header_crc_ok(raw: &[u8], keylen: usize) -> bool {
    let n = rec_header_len(keylen);
    let mut h = raw[..n].to_vec();
    let stored = u32_at(&h, n - 4);
    h[n - 4..n].copy_from_slice(&[0; 4]);
    crc32c(&h) == stored
}

pub fn parse_blob_bytes(b: &[u8], keylen: usize) -> ParsedBlob {
    let mut out = ParsedBlob { magic_ok: false, version: 0, flags: 0, records: vec![], end: ParseEnd::Clean, len: b.len() as u64 };
    if b.len() < BLOB_HEADER_LEN {
        out.end = ParseEnd::Trailing { pos: 0, reason: "short blob header".into() };
        return out;
    }
    out.magic_ok = u64_at(b, 0) == BLOB_MAGIC;
    out.version = u32_at(b, 8);
    out.flags = u64_at(b, 12);
    let hl = rec_header_len(keylen);
    let mut pos = BLOB_HEADER_LEN;
    while pos < b.len() {
        if pos + hl > b.len() {
            out.end = ParseEnd::Trailing { pos: pos as u64, reason: "cut inside record header".into() };
            return out;
        }
        let hdr = match parse_rec_header(&b[pos..], keylen) {
            Some(h) => h,
            None => {
                out.end = ParseEnd::Trailing { pos: pos as u64, reason: "bad record magic or key length".into() };
                return out;
            }
        };
        let hok = header_crc_ok(&b[pos..], keylen);
        if !hok {
            out.end = ParseEnd::Trailing { pos: pos as u64, reason: "record header checksum".into() };
            return out;
        }
        let total = (hl as u64).saturating_add(hdr.meta_size).saturating_add(hdr.data_size);
        if pos as u64 + total > b.len() as u64 {
            out.end = ParseEnd::Trailing { pos: pos as u64, reason: "cut inside record body".into() };
            return out;
        }
        let ms = pos + hl;
        let ds = ms + hdr.meta_size as usize;
        let de = ds + hdr.data_size as usize;
        let data = b[ds..de].to_vec();
        let dok = crc32c(&data) == hdr.data_checksum;
        out.records.push(ParsedRec { pos: pos as u64, header_len: hl as u64, meta: b[ms..ds].to_vec(), data, header_crc_ok: hok, data_crc_ok: dok, hdr });
        pos = de;
    }
    out
}

pub fn parse_blob_file(path: &Path, keylen: usize) -> std::io::Result<ParsedBlob> {
    let b = std::fs::read(path)?;
    Ok(parse_blob_bytes(&b, keylen))
}

/// Decodes a bincode `HashMap<String, Vec<u8>>` (the record meta) into sorted pairs
pub fn parse_meta(b: &[u8]) -> Option<Vec<(String, Vec<u8>)>> {
    if b.len() < 8 {
        return None;
    }
    let n = u64_at(b, 0) as usize;
    let mut pos = 8;
    let mut out = vec![];
    for _ in 0..n {
        if pos + 8 > b.len() {
            return None;
        }
        let l = u64_at(b, pos) as usize;
        pos += 8;
        if pos + l > b.len() {
            return None;
        }
        let name = String::from_utf8(b[pos..pos + l].to_vec()).ok()?;
        pos += l;
        if pos + 8 > b.len() {
            return None;
        }
        let l = u64_at(b, pos) as usize;
        pos += 8;
        if pos + l > b.len() {
            return None;
        }
        out.push((name, b[pos..pos + l].to_vec()));
        pos += l;
    }
    if pos != b.len() {
        return None;
    }
    out.sort();
    Some(out)
}

#[derive(Clone, Debug, PartialEq, Eq)]
pub struct IndexLayout {
    pub len: u64,
    pub records_count: u64,
    pub record_header_size: u64,
    pub meta_size: u64,
    pub written: bool,
    pub version: u8,
    pub key_size: u16,
    pub blob_size: u64,
    pub tree_meta_pos: u64,
    pub tree_offset: u64,
    pub leaves_offset: u64,
}

/// Reads the section layout of an index file (header fields and tree meta)
pub fn index_layout(b: &[u8]) -> Option<IndexLayout> {
    if b.len() < INDEX_HEADER_LEN {
        return None;
    }
    let records_count = u64_at(b, 8);
    let record_header_size = u64_at(b, 16);
    let meta_size = u64_at(b, 24);
    let v = b[INDEX_WRITTEN_BYTE];
    let key_size = u16::from_le_bytes(b[73..75].try_into().unwrap());
    let blob_size = u64_at(b, 75);
    let tree_meta_pos = INDEX_HEADER_LEN as u64 + meta_size;
    if (tree_meta_pos + 16) as usize > b.len() {
        return None;
    }
    let leaves_offset = u64_at(b, tree_meta_pos as usize);
    let tree_offset = u64_at(b, tree_meta_pos as usize + 8);
    Some(IndexLayout { len: b.len() as u64, records_count, record_header_size, meta_size, written: v & 1 == 1, version: v >> 1, key_size, blob_size, tree_meta_pos, tree_offset, leaves_offset })
}
