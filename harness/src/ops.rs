//! Operation language: one `Op` = one public API call with generated arguments, or a harness action.
//! A case is `(Cfg, Vec<Op>)`; it is what proptest generates and shrinks and what replay files hold.

use crate::sut::{Bloom, Cfg, MetaMap, Pred};
use proptest::prelude::*;
use serde::{Deserialize, Serialize};

pub const TS_MAX: u64 = u64::MAX;

#[derive(Clone, Debug, PartialEq, Eq, Serialize, Deserialize)]
pub enum DamageKind {
    Remove,
    /// cut to `frac/65535` of the part of the file selected by `class`
    /// class 0: anywhere; 1: inside header (0..83); 2: exactly header (83); 3: inside filter/meta section;
    /// 4: inside tree meta; 5: node region; 6: leaf region; 7: len-1; 8: len - one record header; 9: zero length
    Truncate { class: u8, frac: u16 },
    /// cut to exactly `len` bytes (no-op if the file is not longer)
    TruncateTo { len: u32 },
    /// clear bit 0 of byte 72 (the `written` flag)
    ClearWritten,
    /// overwrite the whole header (83 bytes) with zeros
    ZeroHeader,
    /// `n` bytes of `fill` appended behind the last section (what a shorter rewrite over a longer old file, or a
    /// pre-allocating file system, leaves behind): bytes that are not recomputed from the blob
    Append { n: u16, fill: u8 },
}

#[derive(Clone, Debug, PartialEq, Eq, Serialize, Deserialize)]
pub struct Damage {
    /// selects one of the index files present at that moment (monotone mapping)
    pub sel: u16,
    pub kind: DamageKind,
}

#[derive(Clone, Debug, Serialize, Deserialize, PartialEq, Eq)]
pub enum BlobDamageKind {
    /// cut inside the header of a record (class: 0 first record, 1 middle, 2 last)
    CutRecordHeader { which: u8, frac: u16 },
    /// cut inside the data/meta of the last record
    CutLastBody { frac: u16 },
    /// zero the blob magic
    ZeroMagic,
    /// cut inside the 20-byte blob header (incl. zero length)
    CutBlobHeader { frac: u16 },
    /// flip a byte of a record header
    FlipRecordHeader { which: u8, frac: u16 },
}

#[derive(Clone, Debug, Serialize, Deserialize, PartialEq, Eq)]
pub struct BlobDamage {
    pub sel: u16,
    pub kind: BlobDamageKind,
}

#[derive(Clone, Debug, PartialEq, Eq, Serialize, Deserialize)]
pub enum FailKind {
    Create,
    Open,
    Write,
    Sync,
}

#[derive(Clone, Debug, PartialEq, Eq, Serialize, Deserialize)]
pub enum Op {
    Write { key: u8, ts: u64, meta: u8, vlen: u32, fill: u8 },
    Delete { key: u8, ts: u64, meta: u8, only_if: bool },
    CloseActive,
    CreateActive,
    Restore,
    /// `try_close_active_blob` followed by `try_create_active_blob`
    Switch,
    ForceUpdate(Pred),
    BgClose,
    BgCreate,
    BgRestore,
    /// wait until the background machinery is quiet (dumps done, messages processed)
    WaitIdle,
    /// `need` selects the `needed` argument: 0 = usize::MAX (everything), 1 = 1 byte, 2 = 4096, 3 = 0, 4 = 100 000
    Offload {
        level: u8,
        #[serde(default)]
        need: u8,
    },
    Fsync,
    Free,
    /// clean close, optional damage to index files, build + init / init_lazy
    Reopen { lazy: bool, remove_all_idx: bool, damage: Vec<Damage> },
    /// clean close, then the harness damages blob files so that init has to quarantine them, then init
    CrashReopen { lazy: bool, damage: Vec<BlobDamage> },
    /// `n` writes of `vlen` bytes issued concurrently (keys outside the queried pool, distinct timestamps)
    Burst { n: u8, vlen: u32 },
    /// arm a one-shot failpoint: the `nth` matching file operation from now on fails
    Fail { kind: FailKind, on_index: bool, nth: u16, eio: bool, short: Option<u16> },
    /// run `victim` but drop its future after `k` resumptions
    Cancel { victim: Box<Op>, k: u16 },
    /// the storage object is dropped WITHOUT `close()` once nothing is in flight (what a killed process leaves, minus the
    /// kill: all acknowledged bytes are in the files / page cache, nothing was synced or dumped on the way out), then a new
    /// one is built on the directory and initialised
    Abandon { lazy: bool },
    /// `init()` called once more on the storage object that is already initialised (a public call like any other)
    InitAgain,
    /// a query whose answer is not looked at (the checks after the step do that): 0 read, 1 read_all_with_deletion_marker
    /// with every entry loaded, 2 contains, 3 read_with(first pool meta), 4 check_filters. Exists so that queries can be
    /// cancellation victims and concurrent partners
    Probe { key: u8, kind: u8 },
}

impl Op {
    pub fn name(&self) -> &'static str {
        match self {
            Op::Write { .. } => "write",
            Op::Delete { .. } => "delete",
            Op::CloseActive => "close_active",
            Op::CreateActive => "create_active",
            Op::Restore => "restore",
            Op::Switch => "switch",
            Op::ForceUpdate(_) => "force_update",
            Op::BgClose => "bg_close",
            Op::BgCreate => "bg_create",
            Op::BgRestore => "bg_restore",
            Op::WaitIdle => "wait_idle",
            Op::Offload { .. } => "offload",
            Op::Fsync => "fsync",
            Op::Free => "free",
            Op::Reopen { .. } => "reopen",
            Op::Burst { .. } => "burst",
            Op::CrashReopen { .. } => "crash_reopen",
            Op::Fail { .. } => "fail",
            Op::Cancel { .. } => "cancel",
            Op::Probe { .. } => "probe",
            Op::Abandon { .. } => "abandon",
            Op::InitAgain => "init_again",
        }
    }
}

#[derive(Clone, Debug, PartialEq, Eq, Serialize, Deserialize)]
pub struct Case {
    pub cfg: Cfg,
    pub ops: Vec<Op>,
}

/// Metadata pool. Index 0 means "call the variant without metadata".
pub fn meta_pool(i: u8) -> Option<MetaMap> {
    let m = |pairs: &[(&str, &[u8])]| -> Option<MetaMap> { Some(pairs.iter().map(|(a, b)| (a.to_string(), b.to_vec())).collect()) };
    match i {
        0 => None,
        1 => m(&[]),
        2 => m(&[("v", &[1])]),
        3 => m(&[("v", &[2]), ("w", &[])]),
        4 => m(&[("", &[0, 255, 0])]),
        5 => m(&[("ключ-ß-名前", &[0xde, 0xad, 0xbe, 0xef]), ("v", &[1])]),
        6 => {
            let long: Vec<u8> = (0..700u32).map(|x| (x * 7 % 251) as u8).collect();
            m(&[("long", &long), ("a", &[]), ("b", &[b'b']), ("c", &[0; 9])])
        }
        7 => {
            // a meta whose serialized form is larger than 64 KiB
            let big: Vec<u8> = (0..70_000u32).map(|x| (x * 13 % 253) as u8).collect();
            m(&[("big", &big), ("v", &[7])])
        }
        8 => {
            // six entries of 32 KiB each (192 KiB serialized): large AND multi-entry - two equal maps built separately
            // iterate in different orders, so their serialized forms differ
            let mut mm = MetaMap::new();
            for e in 0..6u32 {
                let val: Vec<u8> = (0..32_768u32).map(|x| ((x + e) * 11 % 247) as u8).collect();
                mm.insert(format!("entry-{}", e), val);
            }
            Some(mm)
        }
        _ => m(&[("v", &[1])]),
    }
}
pub const META_POOL_SMALL: u8 = 4; // indexes 0..4 are used by the history engines
pub const META_POOL_ALL: u8 = 9;

/// Deterministic value bytes: a function of the op position, the length and the fill kind only
pub fn value_bytes(op_idx: usize, vlen: u32, fill: u8) -> Vec<u8> {
    let n = vlen as usize;
    if fill == 3 {
        // a value whose CRC32C is exactly 0 (what the checksum of an EMPTY value is): pseudo-random bytes with a forged tail
        let mut v = value_bytes(op_idx, vlen, 0);
        if n >= 4 {
            let tail = crate::blobfmt::crc32c_forge_suffix(&v[..n - 4], 0);
            v[n - 4..].copy_from_slice(&tail);
        }
        return v;
    }
    let mut v = Vec::with_capacity(n);
    match fill % 3 {
        1 => v.resize(n, 0),
        2 => {
            // the record magic pattern 0xacdc_bcde (little endian u64) repeated
            let pat = 0xacdc_bcdeu64.to_le_bytes();
            for i in 0..n {
                v.push(pat[i % 8]);
            }
        }
        _ => {
            let mut x = (op_idx as u64).wrapping_mul(0x9E37_79B9_7F4A_7C15) ^ ((fill as u64) << 32) ^ 0xD1B5_4A32_D192_ED03;
            for _ in 0..n {
                x ^= x << 13;
                x ^= x >> 7;
                x ^= x << 17;
                v.push((x >> 24) as u8);
            }
        }
    }
    // tag the first bytes with the op position so that different writes differ whenever there is room
    let tag = (op_idx as u32).to_be_bytes();
    for i in 0..n.min(4) {
        if fill % 3 == 0 {
            v[i] = tag[i];
        }
    }
    v
}

// ------------------------------------------------------------------------------------------------
// strategies
// ------------------------------------------------------------------------------------------------

#[derive(Clone, Copy, Debug, PartialEq, Eq)]
pub enum VlenGen {
    /// 0..300 bytes, mostly 4..12
    Small,
    /// centred on the single-pass (4 KiB) and background-I/O (80 KiB) thresholds, plus small and large values
    Thresholds,
    /// `Thresholds` plus values around 1 MiB and of 3 MiB
    ThresholdsBig,
}

/// Values >= VLEN_REL encode a length relative to a write-path threshold:
/// bits 8..9 select the threshold (0: 4096 - header - meta, 1: 4096, 2: 81920 - header - meta, 3: 81920),
/// the low byte is a signed delta.
pub const VLEN_REL: u32 = 0x4000_0000;

pub fn vlen_rel(thr: u8, delta: i8) -> u32 {
    VLEN_REL | ((thr as u32 & 3) << 8) | (delta as u8 as u32)
}

/// bincode size of a metadata map
pub fn meta_serialized_size(m: &Option<MetaMap>) -> usize {
    8 + m.as_ref().map_or(0, |m| m.iter().map(|(k, v)| 16 + k.len() + v.len()).sum::<usize>())
}

/// Resolves a generated value length for the key length and metadata of the write
pub fn resolve_vlen(vlen: u32, keylen: usize, meta: &Option<MetaMap>) -> u32 {
    if vlen < VLEN_REL {
        return vlen;
    }
    let head = 57 + keylen + meta_serialized_size(meta);
    let thr = (vlen >> 8) & 3;
    let delta = (vlen & 0xff) as u8 as i8 as i64;
    let base: i64 = match thr {
        0 => 4096 - head as i64,
        1 => 4096,
        2 => 81_920 - head as i64,
        _ => 81_920,
    };
    (base + delta).max(0) as u32
}

#[derive(Clone, Debug)]
pub struct GenParams {
    pub nkeys: u8,
    pub ts_span: u64,
    pub metas: u8,
    pub max_ops: usize,
    /// relative weights
    pub w_write: u32,
    pub w_delete: u32,
    pub w_switch: u32,
    pub w_wait: u32,
    pub w_reopen: u32,
    pub w_lifecycle: u32,
    pub w_maint: u32,
    pub w_bg: u32,
    pub reopen_damage: bool,
    /// weight of restarts with damaged blob files (quarantine)
    pub w_crash: u32,
    pub vlen: VlenGen,
    pub fills: u8,
}

impl Default for GenParams {
    fn default() -> Self {
        GenParams {
            nkeys: 5,
            ts_span: 5,
            metas: 1,
            max_ops: 60,
            w_write: 45,
            w_delete: 18,
            w_switch: 12,
            w_wait: 6,
            w_reopen: 5,
            w_lifecycle: 0,
            w_maint: 0,
            w_bg: 0,
            reopen_damage: false,
            w_crash: 0,
            vlen: VlenGen::Small,
            fills: 1,
        }
    }
}

fn ts_strategy(span: u64) -> BoxedStrategy<u64> {
    prop_oneof![
        12 => 0..span,
        1 => Just(TS_MAX),
        1 => Just(TS_MAX - 1),
        // values around the 31 / 32 / 63-bit boundaries: a narrowed or signed comparison orders them wrongly
        1 => prop::sample::select(vec![(1u64 << 31) - 1, 1u64 << 31, (1u64 << 32) - 1, 1u64 << 32, (1u64 << 32) + 1, (1u64 << 63) - 1, 1u64 << 63, (1u64 << 63) + 1]),
    ]
    .boxed()
}

pub fn vlen_small() -> BoxedStrategy<u32> {
    prop_oneof![6 => 4u32..12, 2 => 0u32..4, 1 => 12u32..300].boxed()
}

pub fn vlen_thresholds() -> BoxedStrategy<u32> {
    prop_oneof![
        3 => 0u32..3,
        3 => 3u32..300,
        6 => (0u8..2, -2i8..3).prop_map(|(t, d)| vlen_rel(t, d)),
        3 => (2u8..4, -2i8..3).prop_map(|(t, d)| vlen_rel(t, d)),
        2 => 300u32..6000,
        1 => Just(200_000u32),
    ]
    .boxed()
}

/// `vlen_thresholds` plus values of 1 MiB and more (C05 only: they cost time)
pub fn vlen_thresholds_big() -> BoxedStrategy<u32> {
    prop_oneof![
        19 => vlen_thresholds(),
        // (beyond 4 MiB: block-wise checksumming, if any, has a remainder block there)
        1 => prop_oneof![Just(1_048_575u32), Just(1_048_576u32), Just(1_049_093u32), Just(3_145_729u32), Just(4_194_304u32), Just(5_244_114u32), Just(7_340_031u32)],
    ]
    .boxed()
}

pub fn pred_strategy() -> BoxedStrategy<Pred> {
    prop_oneof![3 => Just(Pred::Always), 1 => Just(Pred::Never), 1 => Just(Pred::Records3), 1 => Just(Pred::NoActive)].boxed()
}

pub fn damage_strategy() -> BoxedStrategy<Damage> {
    let kind = prop_oneof![
        2 => Just(DamageKind::Remove),
        8 => (0u8..10, any::<u16>()).prop_map(|(class, frac)| DamageKind::Truncate { class, frac }),
        2 => Just(DamageKind::ClearWritten),
        1 => Just(DamageKind::ZeroHeader),
        2 => (prop_oneof![1u16..200, 200u16..9000], prop_oneof![Just(0u8), Just(0xA5u8), any::<u8>()]).prop_map(|(n, fill)| DamageKind::Append { n, fill }),
    ];
    (any::<u16>(), kind).prop_map(|(sel, kind)| Damage { sel, kind }).boxed()
}

pub fn blob_damage_strategy() -> BoxedStrategy<BlobDamage> {
    let dk = prop_oneof![
        4 => (0u8..3, any::<u16>()).prop_map(|(which, frac)| BlobDamageKind::CutRecordHeader { which, frac }),
        2 => any::<u16>().prop_map(|frac| BlobDamageKind::CutLastBody { frac }),
        2 => Just(BlobDamageKind::ZeroMagic),
        2 => any::<u16>().prop_map(|frac| BlobDamageKind::CutBlobHeader { frac }),
        2 => (0u8..3, any::<u16>()).prop_map(|(which, frac)| BlobDamageKind::FlipRecordHeader { which, frac }),
    ];
    (any::<u16>(), dk).prop_map(|(sel, kind)| BlobDamage { sel, kind }).boxed()
}

pub fn crash_reopen_strategy() -> BoxedStrategy<Op> {
    (prop::bool::weighted(0.3), prop::collection::vec(blob_damage_strategy(), 1..3)).prop_map(|(lazy, damage)| Op::CrashReopen { lazy, damage }).boxed()
}

pub fn op_strategy(p: &GenParams) -> BoxedStrategy<Op> {
    let nkeys = p.nkeys;
    let metas = p.metas;
    let vlen = match p.vlen {
        VlenGen::Small => vlen_small(),
        VlenGen::Thresholds => vlen_thresholds(),
        VlenGen::ThresholdsBig => vlen_thresholds_big(),
    };
    let write = (0..nkeys, ts_strategy(p.ts_span), 0..metas, vlen, 0u8..p.fills.max(1)).prop_map(|(key, ts, meta, vlen, fill)| Op::Write { key, ts, meta, vlen, fill });
    let delete = (0..nkeys, ts_strategy(p.ts_span), 0..metas.min(3), any::<bool>()).prop_map(|(key, ts, meta, only_if)| Op::Delete { key, ts, meta, only_if });
    let damage = if p.reopen_damage { prop::collection::vec(damage_strategy(), 0..4).boxed() } else { Just(vec![]).boxed() };
    let reopen = (prop::bool::weighted(0.3), prop::bool::weighted(if p.reopen_damage { 0.15 } else { 0.45 }), damage).prop_map(|(lazy, remove_all_idx, damage)| Op::Reopen { lazy, remove_all_idx, damage });
    let lifecycle = prop_oneof![
        3 => Just(Op::CloseActive),
        3 => Just(Op::CreateActive),
        3 => Just(Op::Restore),
        2 => pred_strategy().prop_map(Op::ForceUpdate),
    ];
    let maint = prop_oneof![
        3 => (0u8..3, prop_oneof![3 => Just(0u8), 2 => 1u8..5]).prop_map(|(level, need)| Op::Offload { level, need }),
        2 => Just(Op::Fsync),
        2 => Just(Op::Free),
    ];
    let bg = prop_oneof![Just(Op::BgClose), Just(Op::BgCreate), Just(Op::BgRestore)];
    let mut choices: Vec<(u32, BoxedStrategy<Op>)> = vec![];
    let mut add = |w: u32, s: BoxedStrategy<Op>| {
        if w > 0 {
            choices.push((w, s));
        }
    };
    add(p.w_write, write.boxed());
    add(p.w_delete, delete.boxed());
    add(p.w_switch, Just(Op::Switch).boxed());
    add(p.w_wait, Just(Op::WaitIdle).boxed());
    add(p.w_reopen, reopen.boxed());
    add(p.w_lifecycle, lifecycle.boxed());
    add(p.w_maint, maint.boxed());
    add(p.w_bg, bg.boxed());
    add(p.w_crash, crash_reopen_strategy().boxed());
    proptest::strategy::Union::new_weighted(choices).boxed()
}

pub fn cfg_strategy(keylens: &'static [usize], short_defer: bool) -> BoxedStrategy<Cfg> {
    let bloom = prop_oneof![2 => Just(Bloom::None), 2 => Just(Bloom::Tiny), 1 => Just(Bloom::Odd), 1 => Just(Bloom::Default)];
    let defer = if short_defer { prop_oneof![Just((2u64, 5u64)), Just((60_000u64, 180_000u64))].boxed() } else { Just((60_000u64, 180_000u64)).boxed() };
    (prop::sample::select(keylens), bloom, 2usize..10, prop::bool::weighted(0.65), prop_oneof![3 => Just(2usize), 1 => Just(0usize)], defer)
        .prop_map(|(keylen, bloom, group, allow_dup, rt_workers, defer_ms)| Cfg { keylen, bloom, group, allow_dup, rt_workers, defer_ms, ..Cfg::default() })
        .boxed()
}

pub fn case_strategy(cfg: BoxedStrategy<Cfg>, p: &GenParams) -> BoxedStrategy<Case> {
    (cfg, prop::collection::vec(op_strategy(p), 0..p.max_ops)).prop_map(|(cfg, ops)| Case { cfg, ops }).boxed()
}

/// Histories at a scale the plain generator does not reach (vec lengths stay small so that shrinking keeps working):
/// kind 0 = one key gets 257-340 versions inside ONE blob with timestamps drawn from two or three values (long runs of
/// equal timestamps: list maintenance paths that depend on the list length), then a generated tail;
/// kind 1 = 66-90 blob switches, one or two writes per blob, the record with the greatest timestamp of a key sitting in one
/// of the OLDEST blobs (any search that stops early after "enough" younger blobs misses it), then a generated tail
pub fn scale_case_strategy(cfg: BoxedStrategy<Cfg>, p: &GenParams) -> BoxedStrategy<Case> {
    let tail = prop::collection::vec(op_strategy(p), 0..12);
    let nkeys = p.nkeys.max(2);
    let metas = p.metas.max(1);
    let versions = (257usize..340, 0u64..3, 1u64..3, 0u8..2, prop::collection::vec((any::<u16>(), 0..nkeys, 0u64..4), 0..6), any::<u64>()).prop_map(move |(n, base, nts, key, others, salt)| {
        let mut ops = vec![];
        let mut x = salt | 1;
        for i in 0..n {
            // xorshift stream derived from the generated salt: which of the nts+1 timestamps, which meta
            x ^= x << 13;
            x ^= x >> 7;
            x ^= x << 17;
            let ts = base + (x >> 8) % (nts + 1);
            let meta = ((x >> 20) % metas as u64) as u8;
            ops.push(Op::Write { key, ts, meta, vlen: 4 + (i % 7) as u32, fill: 0 });
            for (at, k2, t2) in &others {
                if *at as usize % n == i {
                    ops.push(Op::Write { key: *k2, ts: *t2, meta: 0, vlen: 5, fill: 0 });
                }
            }
        }
        ops.push(Op::Delete { key, ts: base + nts, meta: 0, only_if: true });
        ops.push(Op::Write { key, ts: base + nts, meta: 0, vlen: 9, fill: 0 });
        ops
    });
    let blobs = (66usize..90, 0usize..4, 0..nkeys, prop::collection::vec((0..nkeys, 0u64..50), 90), any::<bool>()).prop_map(move |(n, old_at, hot, per, marker)| {
        let mut ops = vec![];
        for i in 0..n {
            if i == old_at {
                // the top-ranked record (or marker) of the hot key lives in one of the oldest blobs
                if marker {
                    ops.push(Op::Write { key: hot, ts: 1, meta: 0, vlen: 6, fill: 0 });
                    ops.push(Op::Delete { key: hot, ts: 1000, meta: 0, only_if: false });
                } else {
                    ops.push(Op::Write { key: hot, ts: 1000, meta: 0, vlen: 6, fill: 0 });
                }
            }
            let (k, t) = per[i];
            ops.push(Op::Write { key: k, ts: t, meta: 0, vlen: 4 + (i % 5) as u32, fill: 0 });
            if i % 9 == 8 {
                ops.push(Op::Write { key: hot, ts: 2 + i as u64, meta: 0, vlen: 7, fill: 0 });
            }
            ops.push(Op::Switch);
        }
        ops.push(Op::Write { key: hot, ts: 500, meta: 0, vlen: 8, fill: 0 });
        ops
    });
    (cfg, prop_oneof![versions.boxed(), blobs.boxed()], tail)
        .prop_map(|(mut cfg, mut ops, tail)| {
            ops.extend(tail);
            // (with duplicates refused the version lists would not grow)
            cfg.allow_dup = true;
            Case { cfg, ops }
        })
        .boxed()
}

pub fn offload_needed(need: u8) -> usize {
    match need {
        1 => 1,
        2 => 4096,
        3 => 0,
        4 => 100_000,
        _ => usize::MAX,
    }
}

/// FNV-1a hash of the canonical JSON of a case (used for counting distinct cases)
pub fn case_hash(c: &Case) -> u64 {
    let s = serde_json::to_vec(c).unwrap_or_default();
    let mut h: u64 = 0xcbf2_9ce4_8422_2325;
    for b in s {
        h ^= b as u64;
        h = h.wrapping_mul(0x0000_0100_0000_01b3);
    }
    h
}

/// Compact one-line rendering of an op list for evidence samples
pub fn render_ops(ops: &[Op]) -> Vec<String> {
    ops.iter()
        .map(|o| match o {
            Op::Write { key, ts, meta, vlen, fill } => format!("write(k{},ts={},m{},{},fill{})", key, fmt_ts(*ts), meta, fmt_vlen(*vlen), fill),
            Op::Delete { key, ts, meta, only_if } => format!("delete(k{},ts={},m{},only_if={})", key, fmt_ts(*ts), meta, only_if),
            Op::Reopen { lazy, remove_all_idx, damage } => format!("reopen(lazy={},rm_idx={},damage={})", lazy, remove_all_idx, damage.len()),
            Op::ForceUpdate(p) => format!("force_update({:?})", p),
            Op::Offload { level, need } => format!("offload(l{}, needed={})", level, offload_needed(*need)),
            Op::Cancel { victim, k } => format!("cancel({} after {})", victim.name(), k),
            Op::Abandon { lazy } => format!("drop-without-close+init(lazy={})", lazy),
            Op::InitAgain => "init() again on the same object".to_string(),
            Op::Probe { key, kind } => format!("probe(k{}, {})", key, ["read", "read_all_dm+load", "contains", "read_with", "check_filters"][(*kind as usize).min(4)]),
            Op::Burst { n, vlen } => format!("burst({}x{})", n, fmt_vlen(*vlen)),
            Op::CrashReopen { lazy, damage } => format!("crash_reopen(lazy={},{:?})", lazy, damage.iter().map(|d| format!("{:?}", d.kind)).collect::<Vec<_>>()),
            Op::Fail { kind, on_index, nth, eio, short } => format!("fail({:?},{},n={},{},short={:?})", kind, if *on_index { "index" } else { "blob" }, nth, if *eio { "EIO" } else { "ENOSPC" }, short),
            other => other.name().to_string(),
        })
        .collect()
}

fn fmt_vlen(v: u32) -> String {
    if v < VLEN_REL {
        format!("{}B", v)
    } else {
        let names = ["4096-head", "4096", "81920-head", "81920"];
        format!("{}{:+}B", names[((v >> 8) & 3) as usize], (v & 0xff) as u8 as i8)
    }
}

fn fmt_ts(ts: u64) -> String {
    if ts == TS_MAX {
        "MAX".into()
    } else if ts == TS_MAX - 1 {
        "MAX-1".into()
    } else {
        ts.to_string()
    }
}
