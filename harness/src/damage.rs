//! Damage generators for index and blob files.

use crate::blobfmt::{index_layout, INDEX_HEADER_LEN, INDEX_WRITTEN_BYTE};
use crate::blobfmt;
use crate::ops::{BlobDamage, BlobDamageKind, Damage, DamageKind};
use crate::sut;
use crate::sut::list_files;
use std::path::{Path, PathBuf};

/// Monotone mapping of a 16-bit selector onto 0..n (n > 0)
pub fn pick(sel: u16, n: usize) -> usize {
    ((sel as usize) * n) >> 16
}

/// Monotone mapping of a 16-bit fraction onto lo..=hi
pub fn span(frac: u16, lo: u64, hi: u64) -> u64 {
    if hi <= lo {
        return lo;
    }
    lo + (((frac as u128) * ((hi - lo + 1) as u128)) >> 16) as u64
}

pub fn index_files(dir: &Path) -> Vec<(usize, PathBuf)> {
    list_files(dir).into_iter().filter(|(_, is_idx, _)| *is_idx).map(|(id, _, p)| (id, p)).collect()
}

/// Length to truncate an index file to, for a position class
pub fn truncate_len(bytes: &[u8], class: u8, frac: u16) -> u64 {
    let len = bytes.len() as u64;
    if len == 0 {
        return 0;
    }
    let lay = index_layout(bytes);
    let h = INDEX_HEADER_LEN as u64;
    let t = match (class, &lay) {
        (1, _) => span(frac, 1, h.min(len) - 1),
        (2, _) => h.min(len - 1),
        (3, Some(l)) => span(frac, h, l.tree_meta_pos.max(h)),
        (4, Some(l)) => span(frac, l.tree_meta_pos, l.tree_meta_pos + 16),
        (5, Some(l)) => span(frac, l.tree_offset, l.leaves_offset),
        (6, Some(l)) => span(frac, l.leaves_offset, len - 1),
        (7, _) => len - 1,
        (8, Some(l)) => len.saturating_sub(l.record_header_size.max(1)),
        (9, _) => 0,
        _ => span(frac, 0, len - 1),
    };
    t.min(len - 1)
}

/// Applies one damage to an index file of `dir`; returns a label describing what was done
pub fn apply_index_damage(dir: &Path, d: &Damage, _keylen: usize) -> Option<&'static str> {
    let files = index_files(dir);
    if files.is_empty() {
        return None;
    }
    let (_, path) = &files[pick(d.sel, files.len())];
    match &d.kind {
        DamageKind::Remove => {
            std::fs::remove_file(path).ok()?;
            Some("index_removed")
        }
        DamageKind::Truncate { class, frac } => {
            let bytes = std::fs::read(path).ok()?;
            let t = truncate_len(&bytes, *class, *frac);
            let f = std::fs::OpenOptions::new().write(true).open(path).ok()?;
            f.set_len(t).ok()?;
            Some("index_truncated")
        }
        DamageKind::TruncateTo { len } => {
            let cur = path.metadata().ok()?.len();
            if (*len as u64) >= cur {
                return None;
            }
            let f = std::fs::OpenOptions::new().write(true).open(path).ok()?;
            f.set_len(*len as u64).ok()?;
            Some("index_truncated")
        }
        DamageKind::ClearWritten => {
            let mut bytes = std::fs::read(path).ok()?;
            if bytes.len() <= INDEX_WRITTEN_BYTE {
                return None;
            }
            bytes[INDEX_WRITTEN_BYTE] &= !1;
            std::fs::write(path, bytes).ok()?;
            Some("index_written_cleared")
        }
        DamageKind::ZeroHeader => {
            let mut bytes = std::fs::read(path).ok()?;
            let n = bytes.len().min(INDEX_HEADER_LEN);
            for b in &mut bytes[..n] {
                *b = 0;
            }
            std::fs::write(path, bytes).ok()?;
            Some("index_header_zeroed")
        }
        DamageKind::Append { n, fill } => {
            use std::io::Write;
            let mut f = std::fs::OpenOptions::new().append(true).open(path).ok()?;
            f.write_all(&vec![*fill; *n as usize]).ok()?;
            Some("index_bytes_appended")
        }
    }
}

/// Applies one damage to a blob file of `dir`; returns true if a file was changed
pub fn apply_blob_damage(dir: &Path, d: &BlobDamage, keylen: usize) -> bool {
    let blobs: Vec<PathBuf> = sut::list_files(dir).into_iter().filter(|(_, i, _)| !*i).map(|(_, _, p)| p).collect();
    if blobs.is_empty() {
        return false;
    }
    let path = &blobs[pick(d.sel, blobs.len())];
    let mut bytes = match std::fs::read(path) {
        Ok(b) => b,
        Err(_) => return false,
    };
    let parsed = blobfmt::parse_blob_bytes(&bytes, keylen);
    let n = parsed.records.len();
    let pick_rec = |which: u8| -> Option<&blobfmt::ParsedRec> {
        if n == 0 {
            None
        } else {
            Some(&parsed.records[match which % 3 {
                0 => 0,
                1 => n / 2,
                _ => n - 1,
            }])
        }
    };
    match &d.kind {
        BlobDamageKind::CutRecordHeader { which, frac } => match pick_rec(*which) {
            Some(r) => bytes.truncate(span(*frac, r.pos + 1, r.pos + r.header_len - 1) as usize),
            None => return false,
        },
        BlobDamageKind::CutLastBody { frac } => match pick_rec(2) {
            Some(r) if r.end() > r.pos + r.header_len => bytes.truncate(span(*frac, r.pos + r.header_len, r.end() - 1) as usize),
            _ => return false,
        },
        BlobDamageKind::ZeroMagic => {
            if bytes.len() < 8 {
                return false;
            }
            for b in &mut bytes[..8] {
                *b = 0;
            }
        }
        BlobDamageKind::CutBlobHeader { frac } => bytes.truncate(span(*frac, 0, (blobfmt::BLOB_HEADER_LEN as u64 - 1).min(bytes.len() as u64)) as usize),
        BlobDamageKind::FlipRecordHeader { which, frac } => match pick_rec(*which) {
            Some(r) => {
                let p = span(*frac, r.pos, r.pos + r.header_len - 1) as usize;
                bytes[p] ^= 0x5a;
            }
            None => return false,
        },
    }
    std::fs::write(path, bytes).is_ok()
}

