//! System under test: a key-length-erased facade over `pearl::Storage<ArrayKey<N>>`.
//! Everything above this module is non-generic, so each key length only instantiates this thin layer.

use anyhow::{anyhow, Result};
use async_trait::async_trait;
use bytes::Bytes;
use pearl::{ArrayKey, BlobRecordTimestamp, BloomConfig, BloomProvider, Builder, FilterResult, Meta, ReadResult, Storage};
use serde::{Deserialize, Serialize};
use std::collections::BTreeMap;
use std::path::{Path, PathBuf};
use std::time::Duration;

pub use pearl::verif::BgState;

/// Key lengths for which the storage facade is instantiated
pub const KEY_LENS: &[usize] = &[1, 4, 8, 33, 100, 400];
/// Additional key lengths instantiated for the tools check (read_index supports 4/8/16/32/64/128 only)
pub const EXTRA_KEY_LENS: &[usize] = &[32, 128];

/// Plain metadata map used by the model (a `Meta` has no iterator, so the harness keeps its own form)
pub type MetaMap = BTreeMap<String, Vec<u8>>;

pub fn to_meta(m: &MetaMap) -> Meta {
    let mut x = Meta::new();
    for (a, b) in m {
        x.insert(a.clone(), b.clone());
    }
    x
}

#[derive(Clone, Debug, PartialEq, Eq, Serialize, Deserialize)]
pub enum Bloom {
    None,
    /// 10 elements, 2 hashers, at most 100 bits: saturates quickly, many false positives
    Tiny,
    /// odd bit count, 3 hashers
    Odd,
    /// pearl's default config
    Default,
    /// 2000 elements, 2 hashers, 80 000 bits (used by the C17 corpus)
    K80,
}

#[derive(Clone, Debug, PartialEq, Eq, Serialize, Deserialize)]
pub struct Cfg {
    pub keylen: usize,
    pub bloom: Bloom,
    pub group: usize,
    pub allow_dup: bool,
    /// worker threads of the runtime; 0 = current-thread runtime
    pub rt_workers: usize,
    /// deferred index dump (min,max) in ms
    pub defer_ms: (u64, u64),
    /// blob file name prefix handed to the builder (None = the harness default "t")
    #[serde(default)]
    pub prefix: Option<String>,
    pub validate_data: bool,
    pub ignore_corrupted: bool,
    /// None = pearl default (32 MiB)
    pub dirty_limit: Option<u64>,
    pub max_blob_size: u64,
    pub max_data_in_blob: u64,
    /// size of the runtime's blocking pool (None = tokio default); 1 lets a check own the order of pearl's file operations
    #[serde(default)]
    pub blocking_threads: Option<usize>,
    /// `Builder::corrupted_dir_name` (None = pearl's default "corrupted"); may have several components ("q/sub")
    #[serde(default)]
    pub corrupted_dir: Option<String>,
}

impl Default for Cfg {
    fn default() -> Self {
        Cfg {
            keylen: 8,
            bloom: Bloom::None,
            group: 8,
            allow_dup: true,
            rt_workers: 2,
            defer_ms: (60_000, 180_000),
            prefix: None,
            validate_data: false,
            ignore_corrupted: false,
            dirty_limit: None,
            max_blob_size: 1 << 40,
            max_data_in_blob: 1 << 30,
            blocking_threads: None,
            corrupted_dir: None,
        }
    }
}

pub const PREFIX: &str = "t";

impl Cfg {
    pub fn bloom_config(&self) -> Option<BloomConfig> {
        match self.bloom {
            Bloom::None => None,
            Bloom::Tiny => Some(BloomConfig { elements: 10, hashers_count: 2, max_buf_bits_count: 100, buf_increase_step: 1, preferred_false_positive_rate: 0.01 }),
            Bloom::Odd => Some(BloomConfig { elements: 37, hashers_count: 3, max_buf_bits_count: 1237, buf_increase_step: 7, preferred_false_positive_rate: 0.05 }),
            Bloom::Default => Some(BloomConfig::default()),
            Bloom::K80 => Some(BloomConfig { elements: 2000, hashers_count: 2, max_buf_bits_count: 80_000, buf_increase_step: 1, preferred_false_positive_rate: 0.001 }),
        }
    }

    pub fn builder(&self, dir: &Path) -> Builder {
        let mut b = Builder::new()
            .work_dir(dir)
            .blob_file_name_prefix(self.prefix.as_deref().unwrap_or(PREFIX))
            .max_blob_size(self.max_blob_size)
            .max_data_in_blob(self.max_data_in_blob)
            .set_deferred_index_dump_times(Duration::from_millis(self.defer_ms.0), Duration::from_millis(self.defer_ms.1))
            .set_bloom_filter_group_size(self.group)
            .set_validate_data_during_index_regen(self.validate_data);
        if self.allow_dup {
            b = b.allow_duplicates();
        }
        if self.ignore_corrupted {
            b = b.ignore_corrupted();
        }
        if let Some(c) = self.bloom_config() {
            b = b.set_filter_config(c);
        }
        if let Some(l) = self.dirty_limit {
            b = b.set_max_dirty_bytes_before_sync(l);
        }
        if let Some(c) = &self.corrupted_dir {
            b = b.corrupted_dir_name(c.clone());
        }
        b
    }

    pub fn deferred_short(&self) -> bool {
        self.defer_ms.1 <= 1000
    }

    /// Directory into which blobs of `dir` are quarantined
    pub fn corrupted_path(&self, dir: &Path) -> PathBuf {
        dir.join(self.corrupted_dir.as_deref().unwrap_or("corrupted"))
    }

    pub fn runtime(&self) -> tokio::runtime::Runtime {
        let mut b = if self.rt_workers == 0 {
            tokio::runtime::Builder::new_current_thread()
        } else {
            let mut b = tokio::runtime::Builder::new_multi_thread();
            b.worker_threads(self.rt_workers);
            b
        };
        if let Some(n) = self.blocking_threads {
            b.max_blocking_threads(n.max(1));
        }
        b.enable_time().build().expect("rt")
    }
}

/// Result classification of `read`/`contains`/`read_with`
#[derive(Clone, Debug, PartialEq, Eq, Serialize, Deserialize)]
pub enum RR<T> {
    Found(T),
    Deleted(u64),
    NotFound,
}

impl<T> RR<T> {
    pub fn class(&self) -> &'static str {
        match self {
            RR::Found(_) => "Found",
            RR::Deleted(_) => "Deleted",
            RR::NotFound => "NotFound",
        }
    }
}

/// One fully loaded entry of `read_all*`
#[derive(Clone, Debug, PartialEq)]
pub struct EntryView {
    pub ts: u64,
    pub deleted: bool,
    pub data: Vec<u8>,
    /// `meta == expected` cannot be evaluated without the expected value, so the harness keeps the `Meta`
    pub meta: Meta,
}

/// Entries handed out by one `read_all_with_deletion_marker` call, kept alive
#[async_trait]
pub trait HeldEntries: Send {
    /// `Entry::load_data()` on every held entry, in list order
    async fn load_data_all(&mut self) -> Vec<Result<Vec<u8>>>;
}

struct Held(Vec<pearl::Entry>);

#[async_trait]
impl HeldEntries for Held {
    async fn load_data_all(&mut self) -> Vec<Result<Vec<u8>>> {
        let mut out = Vec::with_capacity(self.0.len());
        for e in self.0.iter_mut() {
            out.push(e.load_data().await.map(|d| d.to_vec()));
        }
        out
    }
}

/// How much of an entry to load and through which API
#[derive(Clone, Copy, Debug, PartialEq, Eq)]
pub enum LoadMode {
    /// `Entry::load()`
    Full,
    /// `Entry::load_data()` + `Entry::load_meta()`
    Parts,
}

#[derive(Clone, Copy, Debug, PartialEq, Eq, Serialize, Deserialize)]
pub enum Pred {
    Always,
    Never,
    /// true iff an active blob exists and holds at least 3 records
    Records3,
    /// true iff there is no active blob
    NoActive,
    /// a predicate that takes 8 ms (longer than the short deferred-dump times) and answers false: keeps the worker busy
    SlowNever,
}

#[async_trait]
pub trait Sut: Send + Sync {
    async fn write(&self, key: &[u8], val: Bytes, ts: u64, meta: Option<Meta>) -> Result<()>;
    async fn read(&self, key: &[u8]) -> Result<RR<Vec<u8>>>;
    async fn read_with(&self, key: &[u8], meta: &Meta) -> Result<RR<Vec<u8>>>;
    async fn contains(&self, key: &[u8]) -> Result<RR<u64>>;
    async fn read_all(&self, key: &[u8], dm: bool, mode: LoadMode) -> Result<Vec<Result<EntryView>>>;
    /// `read_all_with_deletion_marker` whose `Entry` objects are kept alive by the caller and can be loaded again later
    async fn hold_entries(&self, key: &[u8]) -> Result<Box<dyn HeldEntries>>;
    async fn delete(&self, key: &[u8], ts: u64, meta: Option<Meta>, only_if: bool) -> Result<u64>;
    async fn try_close_active(&self) -> Result<()>;
    async fn try_create_active(&self) -> Result<()>;
    async fn try_restore_active(&self) -> Result<()>;
    async fn close_active_bg(&self);
    async fn create_active_bg(&self);
    async fn restore_active_bg(&self);
    async fn force_update(&self, pred: Pred);
    async fn offload(&mut self, needed: usize, level: usize) -> usize;
    /// `Storage::init()` on the already initialised object
    async fn init_again(&mut self) -> Result<()>;
    async fn fsyncdata(&self) -> std::io::Result<()>;
    async fn free_excess_resources(&self) -> usize;
    async fn has_active(&self) -> bool;
    async fn records_count(&self) -> usize;
    async fn records_count_detailed(&self) -> Vec<(usize, usize)>;
    async fn records_count_in_active(&self) -> Option<usize>;
    async fn blobs_count(&self) -> usize;
    fn next_blob_id(&self) -> usize;
    fn corrupted_blobs_count(&self) -> usize;
    async fn disk_used(&self) -> u64;
    async fn index_memory(&self) -> usize;
    /// `Storage::check_filters`
    async fn check_filters(&self, key: &[u8]) -> Option<bool>;
    /// `BloomProvider::check_filter`: true = NeedAdditionalCheck, false = NotContains
    async fn check_filter(&self, key: &[u8]) -> bool;
    async fn filter_memory(&self) -> usize;
    /// `BloomProvider::get_filter` (the overall filter of the storage, if it has one) and `check_filter_fast`:
    /// (overall filter present, overall filter says NotContains, check_filter_fast says NotContains)
    async fn overall_filter(&self, key: &[u8]) -> (bool, bool, bool);
    fn bg(&self) -> BgState;
    async fn close(self: Box<Self>) -> Result<()>;
}

struct S<const N: usize>(Storage<ArrayKey<N>>);

fn k<const N: usize>(key: &[u8]) -> ArrayKey<N> {
    ArrayKey::<N>::from(key)
}

fn rr_bytes(r: ReadResult<Bytes>) -> RR<Vec<u8>> {
    match r {
        ReadResult::Found(b) => RR::Found(b.to_vec()),
        ReadResult::Deleted(t) => RR::Deleted(t.into()),
        ReadResult::NotFound => RR::NotFound,
    }
}

#[async_trait]
impl<const N: usize> Sut for S<N> {
    async fn write(&self, key: &[u8], val: Bytes, ts: u64, meta: Option<Meta>) -> Result<()> {
        match meta {
            None => self.0.write(k::<N>(key), val, BlobRecordTimestamp::new(ts)).await,
            Some(m) => self.0.write_with(k::<N>(key), val, BlobRecordTimestamp::new(ts), m).await,
        }
    }
    async fn read(&self, key: &[u8]) -> Result<RR<Vec<u8>>> {
        Ok(rr_bytes(self.0.read(k::<N>(key)).await?))
    }
    async fn read_with(&self, key: &[u8], meta: &Meta) -> Result<RR<Vec<u8>>> {
        Ok(rr_bytes(self.0.read_with(k::<N>(key), meta).await?))
    }
    async fn contains(&self, key: &[u8]) -> Result<RR<u64>> {
        Ok(match self.0.contains(k::<N>(key)).await? {
            ReadResult::Found(t) => RR::Found(t.into()),
            ReadResult::Deleted(t) => RR::Deleted(t.into()),
            ReadResult::NotFound => RR::NotFound,
        })
    }
    async fn read_all(&self, key: &[u8], dm: bool, mode: LoadMode) -> Result<Vec<Result<EntryView>>> {
        let entries = if dm { self.0.read_all_with_deletion_marker(k::<N>(key)).await? } else { self.0.read_all(k::<N>(key)).await? };
        let mut out = Vec::with_capacity(entries.len());
        for mut e in entries {
            let ts: u64 = e.timestamp().into();
            let deleted = e.is_deleted();
            let v = match mode {
                LoadMode::Full => e.load().await.map(|rec| {
                    let meta = rec.meta().clone();
                    EntryView { ts, deleted, data: rec.into_data().to_vec(), meta }
                }),
                LoadMode::Parts => {
                    let data = e.load_data().await;
                    match data {
                        Err(err) => Err(err),
                        Ok(d) => match e.load_meta().await {
                            Err(err) => Err(err),
                            Ok(m) => Ok(EntryView { ts, deleted, data: d.to_vec(), meta: m.cloned().ok_or_else(|| anyhow!("load_meta returned None"))? }),
                        },
                    }
                }
            };
            out.push(v);
        }
        Ok(out)
    }
    async fn hold_entries(&self, key: &[u8]) -> Result<Box<dyn HeldEntries>> {
        Ok(Box::new(Held(self.0.read_all_with_deletion_marker(k::<N>(key)).await?)))
    }
    async fn delete(&self, key: &[u8], ts: u64, meta: Option<Meta>, only_if: bool) -> Result<u64> {
        match meta {
            None => self.0.delete(k::<N>(key), BlobRecordTimestamp::new(ts), only_if).await,
            Some(m) => self.0.delete_with(k::<N>(key), BlobRecordTimestamp::new(ts), m, only_if).await,
        }
    }
    async fn try_close_active(&self) -> Result<()> {
        self.0.try_close_active_blob().await
    }
    async fn try_create_active(&self) -> Result<()> {
        self.0.try_create_active_blob().await
    }
    async fn try_restore_active(&self) -> Result<()> {
        self.0.try_restore_active_blob().await
    }
    async fn close_active_bg(&self) {
        self.0.close_active_blob_in_background().await
    }
    async fn create_active_bg(&self) {
        self.0.create_active_blob_in_background().await
    }
    async fn restore_active_bg(&self) {
        self.0.restore_active_blob_in_background().await
    }
    async fn force_update(&self, pred: Pred) {
        match pred {
            Pred::Always => self.0.force_update_active_blob(|_| true).await,
            Pred::Never => self.0.force_update_active_blob(|_| false).await,
            Pred::Records3 => self.0.force_update_active_blob(|s| s.map_or(false, |s| s.records_count >= 3)).await,
            Pred::NoActive => self.0.force_update_active_blob(|s| s.is_none()).await,
            Pred::SlowNever => {
                self.0
                    .force_update_active_blob(|_| {
                        std::thread::sleep(std::time::Duration::from_millis(8));
                        false
                    })
                    .await
            }
        }
    }
    async fn offload(&mut self, needed: usize, level: usize) -> usize {
        BloomProvider::offload_buffer(&mut self.0, needed, level).await
    }
    async fn init_again(&mut self) -> Result<()> {
        self.0.init().await
    }
    async fn fsyncdata(&self) -> std::io::Result<()> {
        self.0.fsyncdata().await
    }
    async fn free_excess_resources(&self) -> usize {
        self.0.free_excess_resources().await
    }
    async fn has_active(&self) -> bool {
        self.0.has_active_blob().await
    }
    async fn records_count(&self) -> usize {
        self.0.records_count().await
    }
    async fn records_count_detailed(&self) -> Vec<(usize, usize)> {
        self.0.records_count_detailed().await
    }
    async fn records_count_in_active(&self) -> Option<usize> {
        self.0.records_count_in_active_blob().await
    }
    async fn blobs_count(&self) -> usize {
        self.0.blobs_count().await
    }
    fn next_blob_id(&self) -> usize {
        self.0.next_blob_id()
    }
    fn corrupted_blobs_count(&self) -> usize {
        self.0.corrupted_blobs_count()
    }
    async fn disk_used(&self) -> u64 {
        self.0.disk_used().await
    }
    async fn index_memory(&self) -> usize {
        self.0.index_memory().await
    }
    async fn check_filters(&self, key: &[u8]) -> Option<bool> {
        self.0.check_filters(k::<N>(key)).await
    }
    async fn check_filter(&self, key: &[u8]) -> bool {
        BloomProvider::check_filter(&self.0, &k::<N>(key)).await == FilterResult::NeedAdditionalCheck
    }
    async fn filter_memory(&self) -> usize {
        BloomProvider::filter_memory_allocated(&self.0).await
    }
    async fn overall_filter(&self, key: &[u8]) -> (bool, bool, bool) {
        use pearl::filter::FilterTrait;
        let kk = k::<N>(key);
        let fast = BloomProvider::check_filter_fast(&self.0, &kk) == FilterResult::NotContains;
        match BloomProvider::get_filter(&self.0).await {
            Some(f) => (true, f.contains_fast(&kk) == FilterResult::NotContains, fast),
            None => (false, false, fast),
        }
    }
    fn bg(&self) -> BgState {
        self.0.verif_bg()
    }
    async fn close(self: Box<Self>) -> Result<()> {
        self.0.close().await
    }
}

async fn open_n<const N: usize>(cfg: &Cfg, dir: &Path, lazy: bool, sem: Option<std::sync::Arc<tokio::sync::Semaphore>>) -> Result<Box<dyn Sut>> {
    let mut b = cfg.builder(dir);
    if let Some(sem) = sem {
        b = b.set_dump_sem(sem);
    }
    let mut s: Storage<ArrayKey<N>> = b.build()?;
    if lazy {
        s.init_lazy().await?;
    } else {
        s.init().await?;
    }
    Ok(Box::new(S::<N>(s)))
}

/// What happened to an `init` future that was polled a few times and dropped
#[derive(Clone, Debug, Default)]
pub struct InitCancel {
    /// the future was still pending when it was dropped
    pub dropped_pending: bool,
    pub polls: usize,
    /// permits of the (one-permit) dump semaphore once everything the dropped future had started was finished
    pub permits_after_drop: usize,
}

async fn open_cancel_n<const N: usize>(cfg: &Cfg, dir: &Path, lazy: bool, k: usize, budget: Option<u8>, sem: std::sync::Arc<tokio::sync::Semaphore>, group: &std::sync::atomic::AtomicI64) -> Result<(Box<dyn Sut>, InitCancel)> {
    use std::sync::atomic::Ordering::SeqCst;
    let initial = sem.available_permits();
    let mut s: Storage<ArrayKey<N>> = cfg.builder(dir).set_dump_sem(sem.clone()).build()?;
    let mut info = InitCancel::default();
    let mut done: Option<Result<()>> = None;
    {
        let mut fut = Box::pin(async {
            if lazy {
                s.init_lazy().await
            } else {
                s.init().await
            }
        });
        for i in 0..=k {
            info.polls += 1;
            if let (true, Some(j)) = (i == k, budget) {
                // the last poll runs with j units of the cooperative budget (see props::c14::poll_kb)
                tokio::task::yield_now().await;
                let mut left = 128usize;
                while left > j as usize && tokio::task::coop::has_budget_remaining() {
                    tokio::task::coop::consume_budget().await;
                    left -= 1;
                }
            }
            match futures::poll!(fut.as_mut()) {
                std::task::Poll::Ready(r) => {
                    done = Some(r);
                    break;
                }
                std::task::Poll::Pending => tokio::time::sleep(Duration::from_micros(200)).await,
            }
        }
        drop(fut);
    }
    match done {
        Some(Ok(())) => {
            info.permits_after_drop = initial;
            return Ok((Box::new(S::<N>(s)), info));
        }
        Some(Err(e)) => return Err(e),
        None => info.dropped_pending = true,
    }
    // what the dropped future left in the blocking pool finishes; a permit still missing afterwards is gone for good
    let t0 = std::time::Instant::now();
    loop {
        info.permits_after_drop = sem.available_permits();
        if (group.load(SeqCst) <= 0 && info.permits_after_drop == initial) || t0.elapsed() > Duration::from_secs(5) {
            break;
        }
        tokio::time::sleep(Duration::from_micros(300)).await;
    }
    if info.permits_after_drop != initial {
        // the next init would wait for the permit for ever: do not try
        return Ok((Box::new(S::<N>(s)), info));
    }
    if lazy {
        s.init_lazy().await?;
    } else {
        s.init().await?;
    }
    Ok((Box::new(S::<N>(s)), info))
}

/// Builds a storage on `dir` with its own one-permit dump semaphore, polls `init` at most `k + 1` times, drops it if it is
/// still pending, and initialises the same object again (unless the permit is gone)
pub async fn open_cancel_init(cfg: &Cfg, dir: &Path, lazy: bool, k: usize, budget: Option<u8>, group: &std::sync::atomic::AtomicI64) -> Result<(Box<dyn Sut>, InitCancel)> {
    let sem = std::sync::Arc::new(tokio::sync::Semaphore::new(1));
    match cfg.keylen {
        8 => open_cancel_n::<8>(cfg, dir, lazy, k, budget, sem, group).await,
        33 => open_cancel_n::<33>(cfg, dir, lazy, k, budget, sem, group).await,
        n => Err(anyhow!("unsupported key length {}", n)),
    }
}

/// Builds and initialises a storage on `dir`
pub async fn open(cfg: &Cfg, dir: &Path, lazy: bool) -> Result<Box<dyn Sut>> {
    open_sem(cfg, dir, lazy, None).await
}

/// `open` with a caller-owned dump semaphore (`Builder::set_dump_sem`: shared between storages on one disk)
pub async fn open_sem(cfg: &Cfg, dir: &Path, lazy: bool, sem: Option<std::sync::Arc<tokio::sync::Semaphore>>) -> Result<Box<dyn Sut>> {
    match cfg.keylen {
        1 => open_n::<1>(cfg, dir, lazy, sem).await,
        2 => open_n::<2>(cfg, dir, lazy, sem).await,
        3 => open_n::<3>(cfg, dir, lazy, sem).await,
        12 => open_n::<12>(cfg, dir, lazy, sem).await,
        16 => open_n::<16>(cfg, dir, lazy, sem).await,
        4 => open_n::<4>(cfg, dir, lazy, sem).await,
        8 => open_n::<8>(cfg, dir, lazy, sem).await,
        32 => open_n::<32>(cfg, dir, lazy, sem).await,
        64 => open_n::<64>(cfg, dir, lazy, sem).await,
        33 => open_n::<33>(cfg, dir, lazy, sem).await,
        128 => open_n::<128>(cfg, dir, lazy, sem).await,
        100 => open_n::<100>(cfg, dir, lazy, sem).await,
        400 => open_n::<400>(cfg, dir, lazy, sem).await,
        n => Err(anyhow!("unsupported key length {}", n)),
    }
}

/// Key bytes for key index `i`: spread over the key space in the first byte, distinct in the last
pub fn key_bytes(keylen: usize, i: u8) -> Vec<u8> {
    let mut v = vec![i; keylen];
    v[0] = i.wrapping_mul(37);
    if keylen > 1 {
        v[keylen - 1] = i;
    }
    v
}

/// Waits until no message is queued/being processed and no maintenance task runs.
/// With `deferred` also waits for a pending deferred dump. Returns the last state; `Err` if the
/// worker died or the wait exceeded `max`.
pub async fn wait_quiet(s: &dyn Sut, deferred: bool, max: Duration) -> std::result::Result<BgState, BgState> {
    let start = std::time::Instant::now();
    let mut spins = 0u32;
    // a deferred dump that is still pending long after its (short) deadline while nothing else is going on
    let mut only_deferred_since: Option<std::time::Instant> = None;
    loop {
        let st = s.bg();
        let ok = if deferred { st.idle() } else { st.quiet() };
        if ok {
            return Ok(st);
        }
        if deferred && st.quiet() && st.deferred_pending {
            let since = *only_deferred_since.get_or_insert_with(std::time::Instant::now);
            if since.elapsed() > Duration::from_secs(10) {
                return Err(st);
            }
        } else {
            only_deferred_since = None;
        }
        if !st.worker_alive() && st.worker_started {
            return Err(st);
        }
        if start.elapsed() > max {
            return Err(st);
        }
        spins += 1;
        if spins < 20 {
            tokio::task::yield_now().await;
        } else {
            tokio::time::sleep(Duration::from_micros(300)).await;
        }
    }
}

pub fn blob_path(dir: &Path, id: usize) -> PathBuf {
    dir.join(format!("{}.{}.blob", PREFIX, id))
}
pub fn index_path(dir: &Path, id: usize) -> PathBuf {
    dir.join(format!("{}.{}.index", PREFIX, id))
}

/// (id, is_index, path) of every blob/index file in `dir`
pub fn list_files(dir: &Path) -> Vec<(usize, bool, PathBuf)> {
    let mut v = vec![];
    if let Ok(rd) = std::fs::read_dir(dir) {
        for e in rd.flatten() {
            let p = e.path();
            if !p.is_file() {
                continue;
            }
            let name = match p.file_name().and_then(|n| n.to_str()) {
                Some(n) => n.to_string(),
                None => continue,
            };
            let parts: Vec<&str> = name.split('.').collect();
            if parts.len() == 3 && parts[0] == PREFIX {
                if let Ok(id) = parts[1].parse::<usize>() {
                    match parts[2] {
                        "blob" => v.push((id, false, p)),
                        "index" => v.push((id, true, p)),
                        _ => {}
                    }
                }
            }
        }
    }
    v.sort();
    v
}
