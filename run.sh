#!/bin/sh
# usage: ./run.sh <property id> <quick|thorough>
# Rebuilds the harness (and pearl with the pearl_verif feature) from /repo's current working tree, then runs the check.
# exit 0: property held on everything explored; exit 1: VIOLATION line printed; exit 2: inconclusive (build failure, hang)
ID="$1"; TIER="${2:-quick}"
export CARGO_NET_OFFLINE=true RUST_BACKTRACE=0
cd /verif/harness || exit 2
if ! cargo build --release >/tmp/.pvh-build.$$ 2>&1; then
  grep -E "^(error|warning: unused)" -A6 /tmp/.pvh-build.$$ | head -60 >&2
  rm -f /tmp/.pvh-build.$$
  echo "INCONCLUSIVE property=$ID harness or /repo does not build"
  exit 2
fi
rm -f /tmp/.pvh-build.$$
cd /verif || exit 2
FUZZ_CODE=0
if [ "$TIER" = "thorough" ] && [ -z "$VERIF_NO_FUZZ" ]; then
  # coverage-guided complement (libFuzzer): bytes -> same case language -> same oracle
  case "$ID" in
    C01|C02|C04|C15) TARGET=history; RUNS=${VERIF_FUZZ_RUNS:-120000} ;;
    C03) TARGET=restart; RUNS=${VERIF_FUZZ_RUNS:-120000} ;;
    C09) TARGET=index; RUNS=${VERIF_FUZZ_RUNS:-150000} ;;
    C10) TARGET=filters; RUNS=${VERIF_FUZZ_RUNS:-400000} ;;
    C05|C16) TARGET=damage; RUNS=${VERIF_FUZZ_RUNS:-120000} ;;
    *) TARGET="" ;;
  esac
  if [ -n "$TARGET" ]; then
    VERIF_FUZZ_PROP="$ID" /verif/tools/fuzz.sh "$TARGET" "$RUNS"
    FUZZ_CODE=$?
    export VERIF_FUZZ_JSON=/verif/fuzz/last-$TARGET.json
  fi
fi
/verif/harness/target/release/vcheck "$ID" --tier "$TIER"
CODE=$?
if [ "$CODE" -eq 0 ] && [ "$FUZZ_CODE" -ne 0 ]; then CODE=$FUZZ_CODE; fi
exit $CODE
