#!/bin/sh
# usage: ./run.sh <property id> <quick|thorough>
# Rebuilds the harness (and pearl with the pearl_verif feature) from /repo's current working tree, then runs the check.
# exit 0: property held on everything explored; exit 1: VIOLATION line printed; exit 2: inconclusive (build failure, hang)
ID="$1"; TIER="${2:-quick}"
export CARGO_NET_OFFLINE=true RUST_BACKTRACE=0
cd /verif/harness || exit 2
if ! cargo build --release >/tmp/.pvh-build.$$ 2>&1; then
  grep -E "^(error|warning: unused)" -A6 /tmp/.pvh-build.$$ | head -60 >&2
  rm -f /tmp/.pvh-build.$$
  echo "INCONCLUSIVE property=$ID harness or /repo does not build" 
  exit 2
fi
rm -f /tmp/.pvh-build.$$
cd /verif || exit 2
exec /verif/harness/target/release/vcheck "$ID" --tier "$TIER"
