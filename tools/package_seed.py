#!/usr/bin/env python3
"""Copies a confirmed seeded change from an agent's scratch worktree into /verif/seeded/<id>/.
usage: package_seed.py <prop> <n> <worktree> <breaks> <needs> <caught_by> <confirm-log>..."""
import sys, os, shutil, json, glob, re
prop, n, wt, breaks, needs, caught = sys.argv[1:7]
logs = sys.argv[7:]
# "<dst n>:<src n>" packages patch<src n>.diff of the worktree as <prop>-<dst n>
dn, n = n.split(":") if ":" in n else (n, n)
dst = f"/verif/seeded/{prop}-{dn}"
os.makedirs(dst, exist_ok=True)
shutil.copy(f"{wt}/patch{n}.diff", f"{dst}/patch.diff")
demo = f"{wt}/tests/seeded_demo{n}.rs"
if os.path.exists(demo):
    shutil.copy(demo, f"{dst}/seeded_demo{n}.rs")
for extra in glob.glob(f"{wt}/tests/seeded_trace/*") + glob.glob(f"{wt}/examples/seeded*"):
    os.makedirs(f"{dst}/extra", exist_ok=True)
    shutil.copy(extra, f"{dst}/extra/")
ran = []
for lg in logs:
    for line in open(lg):
        if line.startswith(f"{wt} patch{n}:"):
            ran.append(line.strip())
meta = {
    "property": prop,
    "source": "independent sub-agent given only the property text and a scratch worktree of /repo HEAD",
    "breaks": breaks,
    "needs_to_manifest": needs,
    "confirmed_in_scratch_worktree": {
        "commands": [
            "git apply patchN.diff; cargo test --offline --no-fail-fast --lib --test tests; cargo test --offline --doc   (existing suite: must pass)",
            "cargo test --offline --test seeded_demoN   (with the change: must fail; without: must pass)",
        ],
        "results": ran,
    },
    "caught_by": caught,
}
json.dump(meta, open(f"{dst}/meta.json", "w"), indent=1)
print("packaged", dst)
