#!/bin/sh
# usage: tools/fuzz.sh <target> <runs>   - coverage-guided campaign (libFuzzer via cargo-fuzz) for one target.
# Fresh corpus in /dev/shm seeded with a few pseudo-random inputs derived from VERIF_SEED; -fork=$VERIF_JOBS.
# Writes /verif/fuzz/last-<target>.json; prints VIOLATION lines (from the target's oracle) and exits 1 if any input failed.
TARGET="$1"; RUNS="${2:-100000}"
SEED="${VERIF_SEED:-0}"; JOBS="${VERIF_JOBS:-16}"
export CARGO_NET_OFFLINE=true RUST_BACKTRACE=0
cd /verif/fuzz || exit 2
cp /verif/harness/Cargo.lock /verif/fuzz/Cargo.lock 2>/dev/null
LOG=/dev/shm/pvh-fuzz-$TARGET-$$.log
if ! cargo +nightly fuzz build --fuzz-dir /verif/fuzz -s none "$TARGET" > "$LOG" 2>&1; then
  grep -E "^error" -A6 "$LOG" | head -40 >&2
  echo "INCONCLUSIVE fuzz target $TARGET does not build"; rm -f "$LOG"; exit 2
fi
CORPUS=/dev/shm/pvh-fuzz-corpus-$TARGET-$$
rm -rf "$CORPUS"; mkdir -p "$CORPUS"
python3 - "$CORPUS" "$SEED" <<'PY'
import sys, random
d, seed = sys.argv[1], int(sys.argv[2])
r = random.Random(seed * 7919 + 13)
for i, n in enumerate([16, 64, 200, 600, 1500, 3000, 4000, 4000]):
    open(f"{d}/seed{i}", "wb").write(bytes(r.getrandbits(8) if r.random() < 0.7 else r.choice([0, 1, 2, 255]) for _ in range(n)))
PY
export VERIF_FUZZ_SCRATCH=/dev/shm/pvh-fuzz-scratch-$TARGET-$$
mkdir -p "$VERIF_FUZZ_SCRATCH"
START=$(date +%s)
BIN=$(ls /verif/fuzz/target/*/release/$TARGET 2>/dev/null | head -1)
"$BIN" "$CORPUS" -runs="$RUNS" -seed=$((SEED + 1)) -len_control=0 -max_len=4096 -fork="$JOBS" -artifact_prefix="$CORPUS/crash-" > "$LOG" 2>&1
CODE=$?
END=$(date +%s)
EXECS=$(grep -oE "^#[0-9]+" "$LOG" | tail -1 | tr -d '#')
COV=$(grep -oE "cov: [0-9]+" "$LOG" | tail -1 | cut -d' ' -f2)
NCORP=$(ls "$CORPUS" | grep -vc '^crash-')
VIOL=$(grep -E "^VIOLATION property=" "$LOG" | sort -u)
echo "{\"target\": \"$TARGET\", \"requested_runs\": $RUNS, \"executions\": ${EXECS:-0}, \"coverage_edges\": ${COV:-0}, \"corpus_files\": $NCORP, \"libfuzzer_exit\": $CODE, \"wall_s\": $((END-START)), \"seed\": $SEED, \"fork\": $JOBS}" > /verif/fuzz/last-$TARGET.json
echo "[fuzz:$TARGET] executions=${EXECS:-0} cov=${COV:-0} corpus=$NCORP exit=$CODE wall=$((END-START))s"
rm -rf "$VERIF_FUZZ_SCRATCH" 2>/dev/null
if [ -n "$VIOL" ]; then
  echo "$VIOL"
  rm -rf "$CORPUS" "$LOG"; exit 1
fi
if [ "$CODE" -ne 0 ]; then
  # a crash that is not an oracle failure (e.g. a panic inside pearl): keep the log excerpt
  grep -E "panicked|ERROR|SUMMARY" "$LOG" | head -5
  echo "INCONCLUSIVE fuzz target $TARGET ended with exit $CODE without an oracle violation (see above)"
  rm -rf "$CORPUS" "$LOG"; exit 2
fi
rm -rf "$CORPUS" "$LOG"
exit 0
