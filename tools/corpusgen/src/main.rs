// Corpus generator for C17: runs against the PINNED pearl tree (public API only) and writes
// directories + expected.json (every query answer) that the current tree must reproduce.
use bytes::Bytes;
use pearl::*;
use serde_json::{json, Value};
use std::path::{Path, PathBuf};
use std::time::Duration;

struct Lcg(u64);
impl Lcg {
    fn next(&mut self) -> u64 { self.0 ^= self.0 << 13; self.0 ^= self.0 >> 7; self.0 ^= self.0 << 17; self.0 }
    fn below(&mut self, n: u64) -> u64 { self.next() % n.max(1) }
}

fn key_bytes(keylen: usize, i: u8) -> Vec<u8> {
    let mut v = vec![i; keylen];
    v[0] = i.wrapping_mul(37);
    if keylen > 1 { v[keylen - 1] = i; }
    v
}

/// Key function of the "tree" directories: up to 65536 distinct keys for every key length >= 2
fn wide_key_bytes(keylen: usize, i: u16) -> Vec<u8> {
    let mut v = vec![(i % 251) as u8; keylen];
    v[0] = (i >> 8) as u8;
    v[1] = i as u8;
    v
}

fn bloom(name: &str) -> Option<BloomConfig> {
    match name {
        "none" => None,
        "tiny" => Some(BloomConfig { elements: 10, hashers_count: 2, max_buf_bits_count: 100, buf_increase_step: 1, preferred_false_positive_rate: 0.01 }),
        "odd" => Some(BloomConfig { elements: 37, hashers_count: 3, max_buf_bits_count: 1237, buf_increase_step: 7, preferred_false_positive_rate: 0.05 }),
        _ => Some(BloomConfig { elements: 2000, hashers_count: 2, max_buf_bits_count: 80_000, buf_increase_step: 1, preferred_false_positive_rate: 0.001 }),
    }
}

fn builder(dir: &Path, bloom_name: &str, group: usize) -> Builder {
    let mut b = Builder::new().work_dir(dir).blob_file_name_prefix("t").max_blob_size(1 << 40).max_data_in_blob(1 << 30).allow_duplicates()
        .set_deferred_index_dump_times(Duration::from_millis(2), Duration::from_millis(5)).set_bloom_filter_group_size(group);
    if let Some(c) = bloom(bloom_name) { b = b.set_filter_config(c); }
    b
}

fn meta_pool(i: u64) -> Option<Vec<(String, Vec<u8>)>> {
    match i {
        0 => None,
        1 => Some(vec![]),
        2 => Some(vec![("v".into(), vec![1])]),
        _ => Some(vec![("v".into(), vec![2]), ("w".into(), vec![])]),
    }
}
fn to_meta(m: &[(String, Vec<u8>)]) -> Meta { let mut x = Meta::new(); for (a, b) in m { x.insert(a.clone(), b.clone()); } x }

fn value(i: u64, len: usize) -> Vec<u8> { (0..len).map(|j| (i as usize * 31 + j * 7 + (j >> 8)) as u8).collect() }
fn fnv(b: &[u8]) -> String { let mut h: u64 = 0xcbf2_9ce4_8422_2325; for x in b { h ^= *x as u64; h = h.wrapping_mul(0x0000_0100_0000_01b3); } format!("{:016x}", h) }

async fn wait_indexes(dir: &Path, ids: &[usize]) {
    for _ in 0..2000 {
        if ids.iter().all(|i| dir.join(format!("t.{}.index", i)).exists()) { break; }
        tokio::time::sleep(Duration::from_millis(5)).await;
    }
    tokio::time::sleep(Duration::from_millis(50)).await;
}

macro_rules! with_storage {
    ($keylen:expr, $body:ident, $($arg:expr),*) => {
        match $keylen { 4 => $body::<4>($($arg),*).await, 8 => $body::<8>($($arg),*).await, 33 => $body::<33>($($arg),*).await, 400 => $body::<400>($($arg),*).await, 32 => $body::<32>($($arg),*).await, 128 => $body::<128>($($arg),*).await, 1 => $body::<1>($($arg),*).await, 2 => $body::<2>($($arg),*).await, 3 => $body::<3>($($arg),*).await, 12 => $body::<12>($($arg),*).await, 16 => $body::<16>($($arg),*).await, _ => panic!("keylen") }
    };
}

async fn generate<const N: usize>(dir: &Path, bloom_name: &str, group: usize, seed: u64, nblobs: usize, big: bool, wide_ts: bool) -> anyhow::Result<()> {
    let _ = std::fs::remove_dir_all(dir);
    let mut s: Storage<ArrayKey<N>> = builder(dir, bloom_name, group).build()?;
    s.init().await?;
    let mut r = Lcg(seed | 1);
    let mut opno = 0u64;
    for b in 0..nblobs {
        let nops = 6 + r.below(8);
        for _ in 0..nops {
            opno += 1;
            let key = ArrayKey::<N>::from(key_bytes(N, r.below(6) as u8).as_slice());
            let ts = if wide_ts { [0u64, 1, 3, (1 << 33) + 5, (1 << 33) + 6, u64::MAX - 1, u64::MAX][r.below(7) as usize] } else { r.below(5) };
            let mi = r.below(4);
            if r.below(10) < 8 {
                let len = match r.below(12) { 0 => 0, 1 => 1, 2 if big => 4096 - 57 - N - 8, 3 if big => 4097, 4 if big => 81_920 - 57 - N - 8 + 1, 5 if big => 90_000, _ => 3 + r.below(200) as usize };
                let val = Bytes::from(value(opno, len));
                match meta_pool(mi) { None => s.write(&key, val, BlobRecordTimestamp::new(ts)).await?, Some(m) => s.write_with(&key, val, BlobRecordTimestamp::new(ts), to_meta(&m)).await? }
            } else {
                match meta_pool(mi % 3) { None => { s.delete(&key, BlobRecordTimestamp::new(ts), r.below(2) == 0).await?; }, Some(m) => { s.delete_with(&key, BlobRecordTimestamp::new(ts), to_meta(&m), r.below(2) == 0).await?; } }
            }
        }
        if b + 1 < nblobs {
            s.try_close_active_blob().await?;
            s.try_create_active_blob().await?;
        }
    }
    let closed: Vec<usize> = (0..nblobs - 1).collect();
    wait_indexes(dir, &closed).await;
    // deferred dumps after deletes into closed blobs: give them time, then close (dumps the active blob)
    tokio::time::sleep(Duration::from_millis(100)).await;
    s.close().await?;
    Ok(())
}

/// "tree" directories: many distinct keys per blob, so that the index files have inner B+tree nodes (several levels for long keys)
async fn generate_tree<const N: usize>(dir: &Path, bloom_name: &str, group: usize, seed: u64, per_blob: &[usize]) -> anyhow::Result<()> {
    let _ = std::fs::remove_dir_all(dir);
    let mut s: Storage<ArrayKey<N>> = builder(dir, bloom_name, group).build()?;
    s.init().await?;
    let mut r = Lcg(seed | 1);
    let mut opno = 0u64;
    let mut base = 0u16;
    for (b, n) in per_blob.iter().enumerate() {
        // distinct keys of this blob in a shuffled order; every 7th key also gets an older version from the previous range
        let mut order: Vec<u16> = (base..base + *n as u16).collect();
        for i in (1..order.len()).rev() { let j = r.below(i as u64 + 1) as usize; order.swap(i, j); }
        for (j, ki) in order.iter().enumerate() {
            opno += 1;
            let key = ArrayKey::<N>::from(wide_key_bytes(N, *ki).as_slice());
            let val = Bytes::from(value(opno, 3 + r.below(60) as usize));
            let ts = 1 + r.below(3);
            match meta_pool(r.below(4)) { None => s.write(&key, val, BlobRecordTimestamp::new(ts)).await?, Some(m) => s.write_with(&key, val, BlobRecordTimestamp::new(ts), to_meta(&m)).await? }
            if j % 7 == 3 {
                // a second version of the same key (tie or newer), and now and then a version of a key of an earlier blob
                opno += 1;
                s.write(&key, Bytes::from(value(opno, 5)), BlobRecordTimestamp::new(ts + r.below(2))).await?;
                if base > 0 && j % 21 == 3 {
                    opno += 1;
                    let old = ArrayKey::<N>::from(wide_key_bytes(N, r.below(base as u64) as u16).as_slice());
                    s.write(&old, Bytes::from(value(opno, 9)), BlobRecordTimestamp::new(r.below(5))).await?;
                }
            }
            if j % 19 == 5 {
                s.delete(&key, BlobRecordTimestamp::new(ts + 1), true).await?;
            }
        }
        base += *n as u16;
        if b + 1 < per_blob.len() {
            s.try_close_active_blob().await?;
            s.try_create_active_blob().await?;
        }
    }
    let closed: Vec<usize> = (0..per_blob.len() - 1).collect();
    wait_indexes(dir, &closed).await;
    tokio::time::sleep(Duration::from_millis(100)).await;
    s.close().await?;
    Ok(())
}

async fn record<const N: usize>(dir: &Path, bloom_name: &str, group: usize, wide: usize) -> anyhow::Result<Value> {
    let mut s: Storage<ArrayKey<N>> = builder(dir, bloom_name, group).build()?;
    s.init().await?;
    let mut keys = vec![];
    let nkeys = if wide > 0 { wide } else { 7 };
    for ki in 0..nkeys as u16 {
        let kb = if wide > 0 { wide_key_bytes(N, ki) } else { key_bytes(N, ki as u8) };
        let key = ArrayKey::<N>::from(kb.as_slice());
        let read = match s.read(&key).await? { ReadResult::Found(d) => json!({"class": "Found", "len": d.len(), "hash": fnv(&d)}), ReadResult::Deleted(t) => { let t: u64 = t.into(); json!({"class": "Deleted", "ts": t}) }, ReadResult::NotFound => json!({"class": "NotFound"}) };
        let contains = match s.contains(&key).await? { ReadResult::Found(t) => { let t: u64 = t.into(); json!({"class": "Found", "ts": t}) }, ReadResult::Deleted(t) => { let t: u64 = t.into(); json!({"class": "Deleted", "ts": t}) }, ReadResult::NotFound => json!({"class": "NotFound"}) };
        let mut all = vec![];
        for e in s.read_all_with_deletion_marker(&key).await? {
            let ts: u64 = e.timestamp().into();
            let del = e.is_deleted();
            let rec = e.load().await?;
            let metas: Vec<Value> = ["v", "w"].iter().filter_map(|n| rec.meta().get(n).map(|v| json!([n, v]))).collect();
            let d = rec.into_data();
            all.push(json!({"ts": ts, "deleted": del, "len": d.len(), "hash": fnv(&d), "meta": metas}));
        }
        let mut with = vec![];
        for mi in 1..4u64 {
            let m = meta_pool(mi).unwrap();
            let r = match s.read_with(&key, &to_meta(&m)).await? { ReadResult::Found(d) => json!({"class": "Found", "len": d.len(), "hash": fnv(&d)}), ReadResult::Deleted(_) => json!({"class": "Deleted"}), ReadResult::NotFound => json!({"class": "NotFound"}) };
            with.push(r);
        }
        keys.push(json!({"key": ki, "read": read, "contains": contains, "read_all_with_deletion_marker": all, "read_with": with}));
    }
    let counts = json!({"records_count": s.records_count().await, "blobs_count": s.blobs_count().await, "next_blob_id": s.next_blob_id()});
    s.close().await?;
    Ok(json!({"keylen": N, "bloom": bloom_name, "group": group, "keyfn": if wide > 0 { "wide" } else { "small" }, "keys": keys, "counts": counts}))
}

#[tokio::main(flavor = "multi_thread", worker_threads = 2)]
async fn main() -> anyhow::Result<()> {
    let out = PathBuf::from(std::env::args().nth(1).expect("output dir"));
    if std::env::args().nth(2).as_deref() == Some("batch4") {
        // fourth batch (same pinned tree): the short key sizes 1, 2, 3 and the 9..16 byte class (12, 16) of the bloom hash,
        // each with a bloom filter configured
        let specs: Vec<(usize, &str, usize, u64, usize, bool)> = vec![(1, "tiny", 3, 61, 3, false), (2, "odd", 2, 62, 3, false), (3, "default80k", 3, 63, 3, true), (12, "tiny", 4, 64, 3, false), (16, "odd", 2, 65, 3, true)];
        for (keylen, bloom_name, group, seed, nblobs, wide_ts) in specs {
            let name = format!("k{}-{}-g{}-b{}-short", keylen, bloom_name, group, nblobs);
            let dir = out.join(&name);
            with_storage!(keylen, generate, &dir, bloom_name, group, seed, nblobs, false, wide_ts)?;
            let exp = with_storage!(keylen, record, &dir, bloom_name, group, 0)?;
            std::fs::write(dir.join("expected.json"), serde_json::to_vec_pretty(&exp)?)?;
            let _ = std::fs::remove_file(dir.join("pearl.lock"));
            println!("{}: {} files", name, std::fs::read_dir(&dir)?.count());
        }
        return Ok(());
    }
    if std::env::args().nth(2).as_deref() == Some("batch3") {
        // third batch (same pinned tree): key sizes that are multiples of the hash function's block sizes (32, 128),
        // timestamps above 2^32 and at u64::MAX
        let specs: Vec<(usize, &str, usize, u64, usize)> = vec![(32, "odd", 3, 51, 3), (128, "default80k", 2, 52, 3), (8, "tiny", 4, 53, 3)];
        for (keylen, bloom_name, group, seed, nblobs) in specs {
            let name = format!("k{}-{}-g{}-b{}-widets", keylen, bloom_name, group, nblobs);
            let dir = out.join(&name);
            with_storage!(keylen, generate, &dir, bloom_name, group, seed, nblobs, false, true)?;
            let exp = with_storage!(keylen, record, &dir, bloom_name, group, 0)?;
            std::fs::write(dir.join("expected.json"), serde_json::to_vec_pretty(&exp)?)?;
            let _ = std::fs::remove_file(dir.join("pearl.lock"));
            println!("{}: {} files", name, std::fs::read_dir(&dir)?.count());
        }
        return Ok(());
    }
    if std::env::args().nth(2).as_deref() == Some("tree") {
        // second batch (added later, same pinned tree): index files with inner nodes
        let specs: Vec<(usize, &str, usize, u64, Vec<usize>)> = vec![
            (8, "odd", 3, 41, vec![330, 90, 20]),
            (33, "default80k", 2, 42, vec![200, 120]),
            (400, "none", 4, 43, vec![150, 40, 12]),
        ];
        for (keylen, bloom_name, group, seed, per_blob) in specs {
            let name = format!("k{}-{}-g{}-tree{}", keylen, bloom_name, group, per_blob.len());
            let dir = out.join(&name);
            with_storage!(keylen, generate_tree, &dir, bloom_name, group, seed, &per_blob)?;
            let total: usize = per_blob.iter().sum();
            let exp = with_storage!(keylen, record, &dir, bloom_name, group, total + 6)?;
            std::fs::write(dir.join("expected.json"), serde_json::to_vec_pretty(&exp)?)?;
            let _ = std::fs::remove_file(dir.join("pearl.lock"));
            println!("{}: {} files", name, std::fs::read_dir(&dir)?.count());
        }
        return Ok(());
    }
    let specs: Vec<(usize, &str, usize, u64, usize, bool)> = vec![
        (4, "none", 8, 11, 3, false), (4, "tiny", 2, 12, 4, true), (4, "default80k", 3, 13, 2, false),
        (8, "none", 8, 21, 4, true), (8, "odd", 2, 22, 3, false), (8, "default80k", 4, 23, 3, false),
        (33, "none", 2, 31, 2, false), (33, "tiny", 3, 32, 3, false), (33, "odd", 8, 33, 4, true),
    ];
    for (keylen, bloom_name, group, seed, nblobs, big) in specs {
        let name = format!("k{}-{}-g{}-b{}", keylen, bloom_name, group, nblobs);
        let dir = out.join(&name);
        with_storage!(keylen, generate, &dir, bloom_name, group, seed, nblobs, big, false)?;
        let exp = with_storage!(keylen, record, &dir, bloom_name, group, 0)?;
        // the recording session rewrote nothing but may have re-dumped indexes: fine, they are part of the corpus
        std::fs::write(dir.join("expected.json"), serde_json::to_vec_pretty(&exp)?)?;
        let _ = std::fs::remove_file(dir.join("pearl.lock"));
        println!("{}: {} files", name, std::fs::read_dir(&dir)?.count());
    }
    Ok(())
}
