#!/bin/sh
# usage: tools/confirm_suite.sh <worktree> <n>  -> existing suite (lib + tests/tests.rs + doctests) with patch<n> applied
WT="$1"; N="$2"
cd "$WT" || exit 2
export CARGO_NET_OFFLINE=true RUST_LOG=off RUST_BACKTRACE=0 TMPDIR="$WT/target/tmp"
mkdir -p "$TMPDIR"
git checkout -- src 2>/dev/null
git apply "patch$N.diff" || { echo "$WT patch$N: DOES-NOT-APPLY"; exit 1; }
cargo test --offline --no-fail-fast --lib --test tests > "target/confirm$N.suite.log" 2>&1; s1=$?
cargo test --offline --doc > "target/confirm$N.doc.log" 2>&1; s2=$?
git checkout -- src
passed=$(cat "target/confirm$N.suite.log" "target/confirm$N.doc.log" | grep -E "^test result" | awk '{s+=$4; f+=$6} END {print s" passed "f" failed"}')
echo "$WT patch$N: suite_exit=$s1 doc_exit=$s2 $passed"
