#!/bin/sh
# usage: tools/try_mutant.sh <patch.diff> <check id>...   (applies the patch to /repo, runs the quick checks, restores /repo)
# prints one line per check: <id> CAUGHT|MISSED|INCONCLUSIVE
PATCH="$(realpath "$1")"; shift
cd /repo || exit 2
if ! git diff --quiet; then echo "/repo has uncommitted changes"; exit 2; fi
if ! git apply --check "$PATCH" 2>/dev/null; then echo "patch does not apply: $PATCH"; exit 2; fi
git apply "$PATCH"
cd /verif
for id in "$@"; do
  out=$(VERIF_SEED=${VERIF_SEED:-0} ./run.sh "$id" "${TIER:-quick}" 2>&1); code=$?
  clause=$(echo "$out" | grep -m1 "clause:" | sed 's/^ *//')
  fail=$(echo "$out" | grep -m1 "failure:" | cut -c1-260)
  case $code in
    0) echo "$id MISSED" ;;
    1) echo "$id CAUGHT  $clause | $fail" ;;
    *) echo "$id INCONCLUSIVE (exit $code) $(echo "$out" | tail -2 | tr '\n' ' ' | cut -c1-200)" ;;
  esac
done
git -C /repo checkout -- .
find /verif/replays/found -name '*.json' -delete 2>/dev/null
