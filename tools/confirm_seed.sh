#!/bin/sh
# usage: tools/confirm_seed.sh <worktree> <n>   -> confirms in the scratch worktree that patch<n>.diff compiles, keeps the
# existing suite green, and that tests/seeded_demo<n>.rs fails with it and passes without it. Prints a summary line.
WT="$1"; N="$2"
cd "$WT" || exit 2
export CARGO_NET_OFFLINE=true RUST_LOG=off RUST_BACKTRACE=0 TMPDIR="$WT/target/tmp"
mkdir -p "$TMPDIR"
git checkout -- src 2>/dev/null
git apply "patch$N.diff" || { echo "$WT patch$N: DOES-NOT-APPLY"; exit 1; }
cargo test --offline --no-fail-fast --lib --test tests --doc > "target/confirm$N.suite.log" 2>&1; suite=$?
cargo test --offline --test "seeded_demo$N" > "target/confirm$N.demo_with.log" 2>&1; with=$?
git checkout -- src
cargo test --offline --test "seeded_demo$N" > "target/confirm$N.demo_without.log" 2>&1; without=$?
passed=$(grep -E "^test result" "target/confirm$N.suite.log" | awk '{s+=$4} END {print s}')
echo "$WT patch$N: suite_exit=$suite suite_passed=$passed demo_with_exit=$with demo_without_exit=$without"
