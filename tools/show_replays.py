#!/usr/bin/env python3
import json,sys,glob
for f in sorted(glob.glob(sys.argv[1] if len(sys.argv)>1 else '/verif/replays/found/*.json')):
    v=json.load(open(f)); c=v['case']
    print(f.split('/')[-1], '|', v['failure']['clause'], '|', v['failure']['detail'][:300], '| step', v['failure']['step'])
    if isinstance(c, dict) and 'ops' in c:
        print('    ops:', json.dumps(c['ops'])[:900])
        cfg=c.get('cfg',{})
        print('    cfg:', {k:cfg.get(k) for k in ('keylen','bloom','defer_ms','rt_workers','allow_dup','group')})
    else:
        print('    case:', json.dumps(c)[:900])
