#!/usr/bin/env python3
"""Writes /verif/known_findings.json from the table below. Run by hand when a finding is added/fixed; never at check time."""
import json, subprocess
def commit(prefix):
    out = subprocess.run(["git", "-C", "/repo", "log", "--format=%h %s", "8fcb7aa..HEAD"], capture_output=True, text=True).stdout.splitlines()
    for l in out:
        if l.split(" ", 1)[1].startswith(prefix):
            return l.split()[0]
    raise SystemExit("no commit for " + prefix)

FIXED = [
 ("C13", "bg/stall", "fix: re-arm the deadline", "deferred index dump postponed while a dump task runs is never executed (deadline was reset): wait-idle after delete-into-closed-blob + switch never ends"),
 ("C13", "bg/worker-dead", "fix: background worker survives", "worker task panics on a *_in_background request that cannot apply (or on an I/O error creating the next blob); no rotation/dumps afterwards"),
 ("C04", "write/err", "fix: restore_active_blob loads", "write after try_restore_active_blob of a blob whose index was dumped fails with 'Index is closed' (bytes appended anyway)"),
 ("C14", "cancel/close_active-drops-blob", "fix: close_active_blob syncs", "try_close_active_blob dropped (or failing) during fsync detaches the active blob: its records answer NotFound until restart"),
 ("C03", "read/mismatch", "fix: index validation rejects", "index file of a closed blob truncated at almost any length is accepted at start-up: keys silently NotFound or every read errors"),
 ("C11", "read/mismatch", "fix: a failed index dump keeps", "failed index dump (index file cannot be written) empties the in-memory index: all records of the blob NotFound until restart"),
 ("C11", "read_all_with_deletion_marker/len", "fix: index regeneration rejects a tail", "tail record cut inside meta/data (torn write, failed second buffer) is indexed by the start-up scan when data validation is off"),
 ("C11", "read_all_with_deletion_marker/load-err", "fix: existing blobs are opened for positional", "reopened blobs use O_APPEND: after a failed/short write every later acknowledged record lands at another offset than its header says and is unreadable"),
 ("C14", "cancel/restore/after-drop/read/mismatch", "fix: restore_active_blob loads the index before", "try_restore_active_blob dropped while the index is loaded loses the blob taken out of the closed list (regression of the first restore fix, found by the cancellation sweep)"),
 ("C06", "crash/damaged-blob-accepted", "fix: the torn-record check of the blob scan also covers", "with data validation on, a tail deletion marker / empty value cut inside its meta is indexed instead of the blob being quarantined"),
 ("C15", "blobs_count/mismatch", "fix: HierarchicalFilters::len", "blobs_count counts empty slots after restore (2 with one blob file)"),
 ("C15", "disk_used/mismatch", "fix: disk_used counts", "disk_used omits an index file that exists while its index is in memory"),
 ("C07", "harm/blob-id-reused", "fix: blob ids of quarantined", "id of a quarantined blob is reused for a new blob after a restart (a later quarantine would overwrite the saved file)"),
 ("C06", "init/err", "fix: init starts a fresh", "init fails with Uninitialized when ignore_corrupted is set and every blob of the directory is corrupted"),
 ("C16", "recovery_blob/stale-blob-offset", "fix: recovery_blob rewrites", "recovery_blob(skip=true) copies headers with their old blob_offset: records after the skipped one are unreadable by the storage"),
 ("C12", "sync/unsynced-above-limit-at-idle", "fix: background sync re-checks", "a write finishing while the fsync task holds its in-progress flag is neither covered by that sync nor re-triggers one: bytes above the limit stay un-synced at idle"),
 ("C12", "sync/unsynced-above-limit-at-idle", "fix: a sync only marks", "bytes of an append still in flight when sync_all runs are counted as synced (size is reserved before the write)"),
 ("C12", "sync/unsynced-above-limit-at-idle", "fix: a sync request that arrives", "a sync request is dropped while the previous sync task is not yet reported finished although it already took its last look at the un-synced bytes (schedule-dependent; found by the thorough tier)"),
 ("C13", "bg/dump-not-completed", "fix: an index dump request that arrives", "an index dump requested by try_close_active_blob while a dump task is still running is dropped: the closed blob keeps no index file (schedule-dependent; found by the thorough tier)"),
 ("C16", "recovery_blob/output-invalid", "fix: recovery and validation tools reject", "a flipped meta byte that still decodes, but to another length (e.g. the entry count 1 -> 0), is accepted by the tools' record reader: recovery_blob / migrate_blob write the record back with the re-serialized (shorter) meta under the old meta_size - the output blob does not parse; validate_blob accepted the blob (found by the libFuzzer damage campaign of the thorough tier)"),
 ("C12", "sync/unsynced-above-limit-at-idle", "fix: close performs the index dumps", "a deletion marker appended to a closed blob is synced only by the deferred re-dump; close() dropped a pending re-dump, so the marker's bytes stayed un-synced after close() and - when that blob became the active one at the next start - above the limit at idle (found by the thorough tier, 1 case in 10 000)"),
 ("C12", "sync/unsynced-above-limit-at-idle", "fix: restoring the active blob requests", "close the active blob, delete into it (marker appended to the closed blob), restore it: the active blob carries un-synced bytes above the limit and nothing requests a sync (found by a seed sweep of the quick tier)"),
 ("C14", "close/err", "fix: an index loaded back from disk switches", "a delete into a closed blob (or a restore) dropped while the index is loaded back leaves the index in memory with the old, off-loaded filter: every later dump of that blob fails ('Filter buffer offloaded, can't serialize') - silently in the background, and as an error of close() since close performs pending dumps"),
 ("C14", "cancel/close_active/after-drop/read/mismatch", "fix: closing the active blob takes the blob list lock", "try_close_active_blob dropped at the lock of the closed-blob list, which it awaited AFTER taking the active blob out of its slot (the lock is free, but a runtime resource may answer Pending when the task's cooperative budget is used up): the blob object is dropped, its acknowledged records answer NotFound until restart"),
 ("C03", "panic", "fix: a tree offset beyond the end of an index file", "BPTreeFileIndex::read_root computes file size - tree offset before any validation: an index file with an intact header whose tree meta was never written (garbage offsets) makes start-up panic with an arithmetic overflow in builds with overflow checks (the default dev profile); without them the subtraction wraps and the read happens to fail"),
 ("C09", "panic", "fix: searching an index node that holds no key", "with a fan-out of 2 (key lengths above 2032 bytes) the tree builder emits inner nodes with one child and no key whenever a layer has an odd number of nodes; Node::binary_search_serialized computes keys - 1 in usize: every lookup that reaches such a node panics in builds with overflow checks (without them the value wraps to -1 after the cast and the answer is right)"),
 ("C12", "sync/explicit-fsyncdata-noop", "fix: Storage::fsyncdata always", "explicit fsyncdata() issues no sync below the dirty-byte limit"),
]
OPEN = [
 ("C08", "conc/deadlock-channel-backpressure", "thousands of concurrent writers on a full, aged active blob: each write sends a rotation request while holding the storage read lock; when the 1024-slot maintenance queue is full the senders block, and the worker that would drain it waits for the storage write lock - permanent stall (observed from ~8000 writers)"),
 ("C14", "cancel/delete-partially-applied", "a delete future dropped between delete_in_active and the end of delete_in_closed has appended its marker to the active blob (and possibly some closed blobs) but not to the remaining closed blobs in which the key is live; a later delete(only_if_presented) or a restart makes the difference observable"),
 ("C14", "cancel/create-leaves-partial-blob", "dropping try_create_active_blob (or a write/delete that has to create the active blob) before the blob header is written leaves an empty or header-less *.blob file; the next start quarantines it (corrupted_blobs_count = 1) although no data is involved"),
 ("C11", "fault/failed-write-resurrected-after-index-regeneration", "a write that returned Err after its header (or the whole record) had reached the blob file is indexed by the next start-up scan when the index file is missing/stale and data validation is off: contains/read_all list it although it was reported as failed (read of its data fails the checksum unless the whole record was written)"),
 ("C03", "restart/index-content-altered-at-same-length", "an index file of a closed blob that has its original length and an intact header, but whose later bytes differ (cut inside the leaf / node / filter region and filled up to the old length again with zeros or other bytes - the tail of a half-written file whose size was recorded but whose data never reached the disk), passes every start-up check: the written flag, the exact-length check and the header fields are all right, and no checksum covers the sections of an index that is used from disk (the header hash is verified only when an index is loaded into memory). After the restart keys of that blob answer NotFound or every read of them fails with a header-checksum error"),
 ("C16", "validate_blob/accepts-flip/blob-header-version", "validate_blob ignores the blob header's version field (validate_without_version): any bit flip in bytes 8..12 of a blob is accepted"),
 ("C16", "validate_blob/accepts-flip/blob-header-flags", "no check covers the blob header's flags field: any bit flip in bytes 12..20 of a blob is accepted by validate_blob (and by the storage)"),
 ("C16", "validate_blob/accepts-flip/meta", "record metadata bytes are covered by no checksum: a flipped byte inside a record's meta section is accepted whenever bincode still decodes the map"),
]
out = {"findings": []}
for (prop, sig, prefix, what) in FIXED:
    c = commit(prefix)
    out["findings"].append({"property": prop, "signature": sig, "status": "fixed", "commit": c, "what": what, "line": f"fixed: property={prop} {c} {what}"})
for (prop, sig, what) in OPEN:
    out["findings"].append({"property": prop, "signature": sig, "status": "open", "commit": "", "what": what})
json.dump(out, open("/verif/known_findings.json", "w"), indent=1)
print(len(out["findings"]), "findings")
