#!/usr/bin/env python3-vt
import json, jsonschema, glob, sys
jsonschema.validate(json.load(open('/verif/MANIFEST.json')), json.load(open('/root/.vp/MANIFEST.schema.json')))
es = json.load(open('/root/.vp/EVIDENCE.schema.json'))
m = json.load(open('/verif/MANIFEST.json'))
for c in m['checks']:
    p = c['evidence_file']
    try:
        jsonschema.validate(json.load(open(p)), es)
    except Exception as e:
        print('INVALID', p, str(e)[:200]); sys.exit(1)
print('manifest + %d evidence files valid' % len(m['checks']))
