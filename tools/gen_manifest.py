#!/usr/bin/env python3
"""Generates /verif/MANIFEST.json from the table below (single source of truth for check registration)."""
import json, subprocess

CHECKS = [
 # id, level, technique, text, note
 ("C01", "exploration", "model-based property testing (proptest histories vs flat-rank reference model)",
  "Generated histories of write/write_with/delete/delete_with/switch/wait/reopen are run against the real Storage and an independent flat-ranking model; read and contains are compared for every key after every step; a scale phase reaches >256 versions of a key in one blob and >64 blobs with the top-ranked record in one of the oldest. Sampling of an unbounded history space: finds ordering/tie/merge regressions with high probability, proves nothing about histories not generated.",
  "Trusts the reference model (harness/src/model.rs, written from the property statement), tmpfs file semantics, hooks only for the idle probe."),
 ("C02", "exploration", "model-based property testing (proptest histories vs reference model)",
  "Same engine as C01 with metadata, several markers, both only_if_presented values and both duplicate policies; read_all*, read_with, delete counts and per-blob record counts compared after every step.",
  "Trusts the reference model; read_with compares classification and bytes only (the statement gives no timestamp for it)."),
 ("C03", "fault_enumeration", "model-based property testing with generated index-file damage + systematic truncation sweep",
  "Histories with 1-8 restarts; before each restart generated damage (remove / truncate per layout class / written flag cleared / header zeroed / all removed / naturally stale index) is applied to index files; every query and count must equal the model after every step. An enumerated phase truncates the index of a closed blob at a stride of lengths (quick) or at every byte length (thorough) for three key lengths, eager and lazy init. Another enumerated phase restarts directories of 11 / 12 / 102 (thorough: 9-120) blobs, eager and lazy, with and without index files.",
  "Damage is applied only to *.index files between two sessions (the domain the statement names). Sampling over histories; the truncation sweep is exhaustive only for its three fixed histories."),
 ("C04", "exploration", "model-based property testing with lifecycle/maintenance operations",
  "Histories interleave data ops with close/create/restore/force_update/offload/fsync/free and index dumps that complete at generated moments (explicit idle waits vs none, 2-5 ms vs 60 s deferred dumps, both runtime flavours); lifecycle results, all queries (data and count queries) and filter answers compared with the model after every step.",
  "Interleaving of background dumps with client calls is whatever the scheduler produces between two steps; only step boundaries are controlled."),
 ("C05", "fault_enumeration", "round-trip property testing around write-path thresholds + generated <=32-bit corruption bursts located with an independent blob parser",
  "Round trip: generated histories with value lengths centred on the 4 KiB single-pass and 80 KiB background-I/O thresholds (relative to header+meta size), three fill kinds, 7 metadata shapes, compared byte-for-byte through read/read_with/Entry::load/load_data/load_meta in every index state and both runtime flavours, plus an enumerated sweep of lengths 0..8300. Corruption: a stored record's data region is XOR-ed with a <=32-bit burst (storage open, or closed and reopened with/without indexes, validation on/off, quarantine/ignore); every query needing the altered bytes must fail or the blob must have been dropped by a validating init; all other queries must equal the model.",
  "CRC32C detects every burst of <=32 bits, so 'must be Err' has no probabilistic slack. Only data bytes are altered (the statement's domain); header/meta damage belongs to C06/C16."),
 ("C06", "fault_enumeration", "crash-state generation (SIGKILL of a child process; power-loss states rebuilt from the I/O trace) judged against the harness's own parse of the blob files",
  "Kill: a child process runs a seeded history and is SIGKILLed after a generated number of acknowledgements plus a sub-millisecond delay. Power loss: a history runs under the I/O tap; every file is rebuilt as of a generated event and cut at a generated length beyond its last completed sync (optionally zero-filled tail). In both, init must succeed; every blob whose records tile it exactly must be served in full (all queries equal a model built from the independent parse); every other blob must sit byte-identical in the corrupted dir with a matching count and recovery_blob must return its complete prefix; writes after recovery must survive a further restart, also with all index files lost. Kill additionally: every acknowledged record is physically complete in a served or recoverable blob. Enumerated phase: the active blob cut at a stride of / every byte of its last two records.",
  "Power-loss model = per-file prefix beyond the last completed sync; directory-entry durability and tearing inside synced data are out of scope (as in the statement). The failing crash directory itself is saved as the replay because trace interleavings differ between runs."),
 ("C07", "exploration", "history invariant over byte snapshots of every blob file + append-only rules over the I/O tap trace",
  "Histories over all public calls, restarts with index damage, one-shot injected I/O failures (n-th create/open/write/short write/sync on blob or index files) and crash-restarts with harness-made blob damage that forces quarantine. After every step every *.blob (work dir and corrupted dir) is compared byte-wise with its previous snapshot (prefix-monotone, or moved intact to the corrupted dir and immutable there), new blob ids must never have been used in either directory, and the tap trace must show only append-position writes to blobs, no truncate/remove/foreign rename of a blob, and no mutation event at all while a batch of every query kind runs at idle. A further phase makes one offline-tools call (recovery_blob / migrate_blob / move_and_recover_blob) whose output is the input blob itself under a spelling Path equality identifies with it: whatever it answers, every blob keeps its earlier bytes as a prefix.",
  "Blob damage injected by the harness re-baselines the snapshot. A failed write keeps its reserved range for the session; after a restart the file's real length is the baseline. Crash copies are exercised by C06 with its own no-harm clauses."),
 ("C08", "exploration", "concurrent history checking: N real client tasks with logical-clock stamps, max-register linearizability conditions, sequential-model equality at quiescence, independent parse of every blob file",
  "2-200 client tasks (bursts of 500-12000 writers) run seeded scripts against one Storage while a maintenance task switches/syncs/frees/closes underneath and blobs rotate every 20-80 records, on three runtime configurations and on fresh or reopened active blobs. Every completed read is checked against the three max-register linearizability conditions (nothing invented, not stale, monotone), the final state against the sequential model of acknowledged operations, and every blob file against tiling / offset / checksum / exactly-once rules. Deadlock is reported only on a structural witness from the H3 probe. A second phase (lifecycle storm) closes the active blob and releases 4-32 clients by a barrier that all restore / create the active blob and write a fresh key, for 40-140 rounds per case; every acknowledged write must stay readable after each round, at quiescence and after a restart.",
  "Weakest fit of the technique: interleavings are sampled from the real scheduler, not enumerated or controlled; a race with a microsecond window can be missed. The replay re-runs the same scripts but re-samples the schedule. Open known finding: the ~8000-writer channel/lock deadlock (burst phase)."),
 ("C09", "exploration", "differential property testing of the index through a probe hook (in-memory vs on-disk vs sorted-list model) + enumerated shape sweep",
  "Generated header multisets (19 key lengths incl. the capacity-arithmetic classes, fan-out 5..454, runs around block boundaries, ties, markers; for three key lengths also a key type whose order is not the byte order) are pushed into the real index, dumped, loaded back and reopened; every lookup kind for present and absent keys is compared in all four stages with an independent sorted-list model. Enumerated sweep of key counts around powers of the fan-out per key length.",
  "Uses the H5 IndexProbe hook (thin wrapper, no logic). Up to 3000 keys / 6000 headers per case; for >300 keys a spread subset of keys plus leaf-boundary keys is queried in the quick tier."),
 ("C10", "exploration", "property testing of filter units and storage-level filter answers against key-set membership",
  "Bloom/Range/Combined filters: generated configs (odd bit counts, 0-5 hashers, zero sizes) and key sets; no added key is ever denied in memory, after serialization, probed from file bytes (answers must equal in-memory answers for all probes), off-loaded, merged. HierarchicalFilters under push/pop/remove/offload/reload scripts with group sizes 2-9: every key of every present child stays reachable. Storage level: check_filters/check_filter never deny a stored key across offload/restore/delete-in-closed/restart histories.",
  "False positives are never flagged. The file-probe test uses a BloomDataProvider over serialized bytes at a generated offset (the same interface the index implements)."),
 ("C11", "fault_enumeration", "model-based property testing with injected I/O failpoints (n-th create/open/write/short write/sync on blob or index files) + enumerated n-sweep",
  "Generated histories with one-shot failpoints armed at generated steps; an error without a fired failpoint is a violation, a write that reported Err is rolled back in the model and must never be served, every record acknowledged earlier must keep answering exactly after every step, service must resume after the fault clears (writes, delete, worker alive, idle reached), and after restart every blob is served or preserved byte-identical in the corrupted dir. Enumerated phase: one fixed history with the n-th operation of each kind failing for every n, on fresh and reopened active blobs. Rotation phase: the fault hits the background rotation of a full, aged blob; afterwards rotation must resume and continue.",
  "Faults are injected at pearl's own call sites (hook H2), not in the kernel. A key hit by a faulted delete is excluded from comparison (a delete may legitimately be applied to some blobs only). Open known finding: a failed write whose bytes reached the file can be resurrected by a later index regeneration."),
 ("C12", "exploration", "trace property: four ordering rules evaluated on the generated write/sync event trace (I/O tap)",
  "Generated histories with dirty-byte limits {0,1,100,4096,1MiB,default}, value sizes around the write-path thresholds and concurrent write bursts run under the I/O tap with payload capture; the ordered trace must satisfy: blob header synced before the first record, index marked complete only after the blob bytes it describes were synced, explicit fsyncdata / close of the active blob / close leave no un-synced byte of that blob, at every idle point the active blob's un-synced bytes are within the limit, and when close() of the storage has returned every byte of every blob file is covered by a completed sync. A second generated phase injects one failing sync of a blob file (failpoint, EIO/ENOSPC) into write/burst/fsyncdata histories and judges the idle rule at every idle point that follows an acknowledged write made after the failure.",
  "A write counts as covered by a sync only if its end event precedes the sync's begin event. 'Eventually' is judged at quiescence (H3 probe)."),
 ("C13", "exploration", "property testing of liveness at quiescence: arbitrary call sequences followed by an overflow probe judged through the background-worker probe",
  "Generated sequences over all public calls (all *_in_background variants in every active-blob state, force_update predicates incl. a slow one that makes the worker late for a pending deferred dump, data ops, restarts) with tiny blob limits; then the active blob is aged past the 200 ms debounce and over-filled; at idle (nothing queued, nothing running) the worker must be alive, a switch must have happened, every non-empty closed blob must have a complete current index file, and close() must return. Enumerated phases: a caller-owned dump semaphore held by somebody else for a while; a steady stream of deletion markers into a closed blob with gaps below the deferred-dump minimum, during which the index must be written again within the documented maximum waiting time (judged only after ten maxima plus 3 s).",
  "Liveness is judged at quiescence observed through hook H3, so a missing switch is definite; a close() that does not return within 120 s ends the run inconclusive (exit 2)."),
 ("C14", "fault_enumeration", "cancellation-point enumeration: victim future polled with a flag waker and dropped after k resumptions, judged against applied / not-applied / applied-from-restart model worlds",
  "Generated prefix, one victim call of every kind (writes across the size thresholds, deletes over several blobs, close/create/restore of the active blob, fsyncdata) dropped after k resumptions on both runtime flavours, generated suffix and restarts. All data answers must match a world in which the victim is applied entirely or not at all (a record that reached the file but not the index may take effect from a restart on); later operations must succeed; after the final restart nothing is quarantined and every blob file parses and validates. Enumerated phase: every victim kind x every k x both runtimes x fresh/reopened active blob. Init phase: init / init_lazy polled 1-16 times and dropped on a storage with a harness-owned one-permit dump semaphore - the permit must be back once nothing is in flight, then the same object is initialised again and judged against the model. Overlap phase: one-thread blocking pool held by a gate, a write polled once and dropped, the next write started at once, gate opened - acknowledged writes read back exactly, the dropped one is absent or complete, blobs parse completely, nothing is quarantined at an index-less restart.",
  "Suspension points are those the runtime produces, plus those of tokio's cooperative budget: the last poll of the victim can be given j budget units, so that the (j+1)-th lock / channel / join handle it touches answers Pending (generated, and swept for every victim kind). Open known findings: a dropped blob creation leaves an empty blob file that the next start quarantines; a dropped delete may have marked only some of the blobs."),
 ("C15", "exploration", "model-based property testing of accounting values",
  "records_count*, blobs_count, next_blob_id, corrupted_blobs_count compared with the model after every step of generated histories (restore, delete into closed blobs, forced switches, clean restarts, restarts without close with blob damage that quarantines a blob); disk_used compared with the directory listing at every idle point.",
  "The id printed for the active entry of records_count_detailed is not asserted (only its count). disk_used is compared only at idle points (no dump in flight)."),
 ("C16", "fault_enumeration", "property testing of the offline tools on storage-produced blobs under generated truncation / byte-flip damage per position class",
  "Blobs produced by generated single-blob histories; undamaged files must pass validate_blob/validate_index, read_index must report exactly the parser's headers, migrate_blob must preserve every record. One generated damage (truncation inside a record per class, or a flipped byte in one of 15 position classes): validate_blob must reject, recovery_blob (skip off/on) must produce a valid blob with every intact record before the damage (and after it when skipping applies), correct blob_offsets, nothing invented, and a Storage opened on the output must serve every contained record with its original bytes. Enumerated phase: blobs of 1500-2600 records recovered / migrated undamaged for validate_every around 1024 and around the record count, also from a version-0 source (0 -> 1 migration).",
  "Known findings (open): flips in the blob header's version/flags fields and decodable flips in meta bytes are accepted by validate_blob (no checksum covers them); those cases print KNOWN-FINDING and are excluded from the reject clause only."),
 ("C17", "exploration", "cross-version differential against a committed corpus written by the pinned tree, exhaustively enumerated index-presence subsets and mismatch mutations",
  "20 corpus directories written by the pinned release with recorded answers (9 small ones, 3 with multi-level B+tree index files, 3 with key sizes 32 / 128 and timestamps above 2^32 / at u64::MAX, 5 with the short key sizes 1 / 2 / 3 / 12 / 16 and bloom filters); for every subset of removed index files and both init modes the current code must reproduce every recorded answer - also with the bloom buffers off-loaded - and rebuild byte-identical index files; a bumped blob version must make init fail, a bumped index version must be healed by regeneration, another key size must never yield a successful read; opened under another bloom configuration (optionally extended by new blobs and reopened) every recorded answer must still hold.",
  "Only formats the pinned tree can write; the corpus was extended three times after seeded changes exposed gaps (tree depth, key sizes, short keys). The oracle is the old code's recorded behaviour."),
]

def main():
    commits = subprocess.run(["git", "-C", "/repo", "log", "--format=%h %s", "8fcb7aa..HEAD"], capture_output=True, text=True).stdout.strip().splitlines()
    hooks = [c.split()[0] for c in commits if c.split(" ", 1)[1].startswith("verif hooks")]
    checks = []
    for (pid, level, tech, text, note) in CHECKS:
        checks.append({
            "property_id": pid,
            "quick_cmd": f"./run.sh {pid} quick",
            "thorough_cmd": f"./run.sh {pid} thorough",
            "evidence_file": f"/verif/evidence/{pid}.json",
            "replay_cmd_template": f"./harness/target/release/vcheck {pid} --replay {{path}}",
            "engine": "pvh",
            "level_claimed": {"category": level, "text": text, "design_ref": f"DESIGN.md section 4, {pid}"},
            "level_note": note,
            "technique": tech,
        })
    claimed = {c[0] for c in CHECKS}
    props = [json.loads(l)["id"] for l in open("/verif/properties.jsonl")]
    na = json.load(open("/verif/tools/not_applicable.json"))
    na = [x for x in na if x["property_id"] not in claimed]
    missing = [p for p in props if p not in claimed and p not in {x["property_id"] for x in na}]
    for p in missing:
        na.append({"property_id": p, "reason": "check not built yet in this snapshot of /verif (work in progress, see DESIGN.md)"})
    m = {
        "version": 1,
        "setup_cmd": "cd /verif/harness && CARGO_NET_OFFLINE=true cargo build --release",
        "hooks": {
            "guard": "cargo feature pearl_verif",
            "enable": "harness/Cargo.toml depends on pearl = { path = \"/repo\", features = [\"pearl_verif\"] }",
            "baseline_off_cmd": "cd /repo && CARGO_NET_OFFLINE=true cargo test --workspace --no-fail-fast --offline",
            "source_commits": hooks,
            "add_only": True,
        },
        "engines": [
            {"name": "pvh", "path": "/verif/harness", "serves_properties": sorted(claimed), "kind_free_text": "Rust crate: proptest-driven generators (stateful histories as vec(op) + interpreter), reference model, independent format parser, parallel runner with shrinking and JSON replay files"},
        ],
        "checks": checks,
        "not_applicable": na,
        "notes": "Every check: ./run.sh <id> <tier> rebuilds harness+pearl from /repo (cargo, incremental) and runs harness/target/release/vcheck. VERIF_SEED selects the PRNG stream (default 0), VERIF_JOBS the worker count (default 16). Exit 2 = inconclusive (build failure / watchdog), never a violation.",
    }
    json.dump(m, open("/verif/MANIFEST.json", "w"), indent=1)
    print("wrote MANIFEST.json with", len(checks), "checks;", len(na), "not claimed")

main()
